"""C10 — 2D bond-orientational order (static.boo.boo_2d) equals the l-fold definition.

Oracles
  order        reference model  psi_i = mean_j e^{i l theta_ij}  /  sum_j w_j e^{i l theta_ij} / sum_j |w_j|  over the
               minimum-image bonds (pbt.ref.boo2ref + pbt.ref.geom), |psi| <= 1, all-equal weights == unweighted,
               invariance under lattice-vector shifts of single particles (periodic axes) and global translation
  rotation     metamorphic: open boundaries, rotate all positions by alpha  =>  psi -> e^{i l alpha} psi;
               mirror y -> -y  =>  psi -> conj(psi)
  lattices     perfect triangular / square / honeycomb lattices (periodic orthogonal box, periodic triclinic
               primitive box, open rotated patch): |psi_l| = 1 when l is a multiple of 6 / 4 / 3, psi_l = e^{i l alpha}
               (triangular, square), psi_l = 0 for the other l, positive weights keep |psi| = 1, signed weights give
               |sum w| / sum |w|
  time_average / spatial_corr / time_corr   reference model on the library's own ParticlePhi (which `order` ties to
               the definition): window mean (C16 text), frame-averaged conditional g(r) of a complex scalar with
               weight Re(A_i conj A_j) (C13 text), origin-averaged normalised autocorrelation (C14 text)
  libfiles     neighbour / weight files written by the library's own writers (Nnearests, cutoffneighbors,
               freud Voronoi + edge lengths) instead of the harness writer; parsed independently for the oracle

Preconditions (only inputs real callers pass): two-dimensional snapshots with the same N / box in all frames; every
particle has >= 1 listed neighbour (lthorder divides by cn, boo.py L537) and sum |w| > 0 (L550); neighbour ids
1-based, never the particle itself; weight file consistent with the neighbour file (same cn per row); time_average:
>= 2 evenly spaced frames and 1 <= floor(period/interval) <= T-1 with period/interval not within rounding of an
integer unless all quantities are dyadic; spatial_corr: L_min/2/rdelta = nbins + 1/2 (no floor ambiguity).
Tolerances are derived per particle from the bond lengths (see boo2ref.psi_frame); half-cell minimum-image ties and
bonds shorter than 1e-6 of the system size carry no assertion (counted in extra.ambiguous_particles).
"""
from __future__ import annotations

import os

import numpy as np
from hypothesis import strategies as st
from hypothesis.extra import numpy as hnp

from ..gen import config_st, fl, frac_st, nice_float, snapshot_from
from ..harness import Facet, Violation
from ..ref import boo2ref as R
from ..ref import geom
from ..util import arr, close, col, columns, require

from PyMatterSim.reader.reader_utils import Snapshots
from PyMatterSim.static.boo import boo_2d

RULE = ("2D configurations (orthogonal / triclinic cell, any origin, all periodicity masks, particles inside or in "
        "neighbouring images; gas / lattice / cluster; N 3..20; 1..6 frames, small-step or independent) x synthetic "
        "neighbour files (random asymmetric / k-nearest / ragged k-nearest; rows in any id order; Nmax default / "
        "equal to max cn / larger / truncating) x weight files (none / positive / signed with zeros / all-equal; "
        "four number formats) x l 1..12. Extension 1: sheared trajectories (triclinic, >= 2 frames, xy tilt different in "
        "every frame, same boxlength; each frame's snapshot and oracle use that frame's cell), 'ragged-forced' lists "
        "(within one frame one particle with the frame-maximum cn and one with a single neighbour, particle 0 being "
        "one of them in half of the cases), repeated calls on one object (lthorder x3 interleaved with a second "
        "object; time_average mode A/window w, then mode not-A/window w2, then A/w again), T = 2 with window 1. non-trivial (order, rotation, libfiles) = coordination numbers differ between "
        "particles, or weights non-uniform, or >= 2 frames; and at least one asserted particle has |psi| > 1e-3")
ASSUMPTIONS = [
    "every particle has >= 1 neighbour and sum|w| > 0; neighbour ids 1-based, no self neighbour; weight rows have the "
    "same cn as the neighbour rows",
    "minimum image = fractional rounding (contract of C02); half-cell ties and bonds shorter than 1e-6 of the system "
    "size are not asserted",
    "lists longer than Nmax are truncated to their first Nmax entries (reader contract, property C05)",
    "time_average / spatial_corr / time_corr are compared as functions of the library's own ParticlePhi, which the "
    "'order' facet ties to the definition; floor(period/interval) and L/2/rdelta are generated away from integer "
    "boundaries (or exactly dyadic)",
    "spatial_corr: pairs within 1e-9 (relative) of a bin edge may fall in either adjacent bin",
]

W_FORMATS = ["%.6f", "%.17g", "%g", "%.3e"]
W_NAMES = ["edgelengthlist", "weightlist", "facearealist"]
WCLASSES = ("none", "none", "none", "positive", "positive", "signed", "signed", "equal")
LIST_KINDS = ("random", "nearest", "nearest-ragged", "ragged-forced", "ragged-forced")
NCLASSES = ("default", "default", "equal", "equal", "larger", "larger", "truncating")


# ============================================================================= generators


def _unit(k):
    return ((k * 2654435761) % 2 ** 32) / 2.0 ** 32


_u32 = st.integers(0, 2 ** 32 - 1)


def pick(values):
    """Evenly spread choice (Hypothesis' own integer / sampled_from draws favour the first entries; the scrambled
    index keeps the class histogram flat while still shrinking to values[0])."""
    values = list(values)
    return _u32.map(lambda k: values[min(int(_unit(k) * len(values)), len(values) - 1)])


@st.composite
def traj_st(draw, frames=(1, 5), cell_kind="any", allow_open=True, force_open=False, nmin=3, nmax=20,
            spacing="any", outside=True, origin="any", kinds=("gas", "lattice", "cluster")):
    shear = draw(pick([True, True, False]))          # class choice first (see case_st)
    base = draw(config_st(d=2, cell_kind=cell_kind, nmin=nmin, nmax=nmax, K=1, frames=(1, 1), allow_open=allow_open,
                          outside=outside, lmin=2.0, lmax=30.0, origin=origin, kinds=kinds))
    if force_open:
        base["ppp"] = np.zeros(2, dtype=int)
    T = draw(pick(range(frames[0], frames[1] + 1)))
    N = len(base["types"])
    H, lo = base["cell"]["H"], base["cell"]["lo"]
    pos = [base["pos"][0]]
    motion = "single"
    if T > 1:
        motion = draw(pick(["small-steps", "small-steps", "independent"]))
    # sheared trajectory: triclinic, >= 2 frames, the xy tilt differs from frame to frame while lx, ly stay equal
    # (boo_2d only pins boxlength); frame k has its own cell dict and positions lo + f_k @ H_k
    sheared = bool(shear and T > 1 and base["cell"]["kind"] == "tri")
    Hs = [H]
    if sheared:
        used = {round(float(H[1, 0] / H[0, 0]), 3)}
        for _ in range(1, T):
            tl = draw(st.integers(-50, 50)) / 100.0
            while round(tl, 3) in used:
                tl = tl + 0.07 if tl < 0.4 else tl - 0.93
            used.add(round(tl, 3))
            Hk = H.copy()
            Hk[1, 0] = tl * H[0, 0]
            Hs.append(Hk)
    else:
        Hs = [H] * T
    fprev = np.linalg.solve(H.T, (pos[0] - lo).T).T
    for k in range(1, T):
        if motion == "small-steps":
            amp = draw(st.sampled_from([0.01, 0.05, 0.2]))
            df = draw(hnp.arrays(np.float64, (N, 2), elements=fl(-1.0, 1.0))) * amp
            fprev = fprev + df
        else:
            fprev = draw(frac_st(N, 2))
        pos.append(lo + fprev @ Hs[k])
    if sheared:
        base["cells"] = [dict(base["cell"], H=Hk) for Hk in Hs]
    t0 = draw(st.sampled_from([0, 0, 1000, 123456]))
    step = draw(st.integers(1, 5000))
    if spacing == "any":
        spacing = draw(pick(["even", "even", "uneven"]))
    if spacing == "even" or T < 3:
        ts = [t0 + k * step for k in range(T)]
        spacing = "even" if T >= 2 else "single"
    else:
        inc = [draw(st.integers(1, 8)) * step for _ in range(T - 1)]
        if len(set(inc)) == 1:
            inc[-1] *= 2
        ts = list(np.concatenate([[t0], t0 + np.cumsum(inc)]).astype(int))
    base.update(pos=pos, timesteps=[int(t) for t in ts], motion=motion, spacing=spacing, sheared=sheared)
    return base


def cell_of(case, t):
    """Cell dict of frame t (sheared trajectories carry one per frame)."""
    return case["cells"][t] if case.get("cells") else case["cell"]


def Hs_of(case):
    return [cell_of(case, t)["H"] for t in range(len(case["pos"]))]


def _nearest_table(pos, H, ppp):
    N = len(pos)
    ii, jj, _, dist, _ = geom.pair_table(pos, H, ppp)
    D = np.full((N, N), np.inf)
    D[ii, jj] = dist
    return D


@st.composite
def lists_st(draw, traj, cmax=None, kind=None, nclass=None):
    """Synthetic neighbour lists (per frame, per particle, 0-based) + file layout choices."""
    N = len(traj["types"])
    T = len(traj["pos"])
    if cmax is None:
        cmax = draw(pick([3, 6, 8, 8, 12]))
    cmax = min(cmax, N - 1)
    if kind is None:
        kind = draw(pick(LIST_KINDS))
    seed = draw(_u32)
    rng = np.random.default_rng(seed)
    frames = []
    for t in range(T):
        if kind == "random":
            lists = []
            for i in range(N):
                cn = int(rng.integers(1, cmax + 1))
                others = np.delete(np.arange(N), i)
                lists.append(rng.permutation(others)[:cn].astype(int))
        else:
            k = draw(st.integers(1, cmax))
            D = _nearest_table(traj["pos"][t], cell_of(traj, t)["H"], traj["ppp"])
            order = np.argsort(D, axis=1, kind="stable")[:, :k]
            lists = [order[i].astype(int) for i in range(N)]
            if kind in ("nearest-ragged", "ragged-forced"):
                lists = [L[: int(rng.integers(1, k + 1))] for L in lists]
            if kind == "ragged-forced" and k >= 2:
                # cn varies inside this frame by construction: one particle keeps the frame maximum k, one has a
                # single neighbour; particle 0 is one of the two (a single neighbour gives |psi_0| = 1, so a value
                # leaking through zero padding / index 0 is as visible as it can be)
                a, b = (int(v) for v in rng.permutation(N)[:2])
                if rng.integers(0, 2):
                    a, b = (0, b if b != 0 else a) if rng.integers(0, 2) else (a if a != 0 else b, 0)
                lists[a] = order[a].astype(int)
                lists[b] = order[b][:1].astype(int)
        frames.append(lists)
    maxcn = max(len(L) for fr in frames for L in fr)
    if nclass is None:
        nclass = draw(pick(NCLASSES))
    if nclass == "truncating" and maxcn < 2:
        nclass = "equal"
    if nclass == "default":
        Nmax = None
    elif nclass == "equal":
        Nmax = maxcn
    elif nclass == "larger":
        Nmax = maxcn + draw(st.integers(1, 5))
    else:
        Nmax = draw(st.integers(1, maxcn - 1))
    shuffled = draw(st.booleans())
    rows = [(rng.permutation(N) if shuffled else np.arange(N)).astype(int) for _ in range(T)]
    return {"lists": frames, "lists_kind": kind, "Nmax": Nmax, "nclass": nclass, "rows": rows,
            "sep": draw(st.sampled_from([" ", "    "])), "seed": seed}


@st.composite
def weights_st(draw, lists, classes=WCLASSES, wclass=None):
    if wclass is None:
        wclass = draw(pick(classes))
    if wclass == "none":
        return {"wclass": "none", "weights": None}
    frames = lists["lists"]
    T, N = len(frames), len(frames[0])
    maxcn = max(len(L) for fr in frames for L in fr)
    if wclass == "equal":
        c = draw(st.sampled_from([1.0, 0.25, 3.5, -2.0]))
        raw = np.full((T, N, maxcn), c)
    elif wclass == "positive":
        raw = draw(hnp.arrays(np.float64, (T, N, maxcn), elements=st.one_of(fl(0.01, 10.0), st.sampled_from([1.0, 0.5, 2.0]))))
    else:
        raw = draw(hnp.arrays(np.float64, (T, N, maxcn),
                              elements=st.one_of(st.just(0.0), fl(-10.0, 10.0), st.sampled_from([-1.0, 1.0, -0.5]))))
    raw = raw.copy()
    first = raw[:, :, 0]                     # sum|w| > 0 for every particle, also after truncation and '%.6f' rounding
    raw[:, :, 0] = np.where(np.abs(first) < 0.01, np.where(first < 0, -0.5, 0.5), first)
    weights = [[raw[t, i, : len(frames[t][i])].copy() for i in range(N)] for t in range(T)]
    rng = np.random.default_rng(lists["seed"] + 1)
    wrows = [(rng.permutation(N) if draw(st.booleans()) else np.arange(N)).astype(int) for _ in range(T)]
    return {"wclass": wclass, "weights": weights, "wfmt": draw(pick(W_FORMATS)),
            "wname": draw(st.sampled_from(W_NAMES)), "wrows": wrows}


@st.composite
def case_st(draw, frames=(1, 5), l_values=tuple(range(1, 13)), wclasses=WCLASSES, **kw):
    # the class-defining choices come first: Hypothesis fills the tail of many examples with minimal choices, which
    # would otherwise pile the cases up in the first class of whatever is drawn last
    l = draw(pick(l_values))
    T = draw(pick(range(frames[0], frames[1] + 1)))
    wclass = draw(pick(wclasses))
    kind = draw(pick(LIST_KINDS))
    nclass = draw(pick(NCLASSES))
    cmax = draw(pick([3, 6, 8, 8, 12]))
    traj = draw(traj_st(frames=(T, T), **kw))
    lists = draw(lists_st(traj, cmax=cmax, kind=kind, nclass=nclass))
    w = draw(weights_st(lists, wclasses, wclass=wclass))
    case = dict(traj)
    case.update(lists)
    case.update(w)
    case["l"] = l
    return case


# ============================================================================= file writer / library call


def write_listfile(path, frames, name, rows, sep, fmt):
    """The library's neighbour-file layout: one block per frame = header 'id cn <name>' + one row per particle
    'id cn v1 .. v_cn' (1-based ids), rows in the given order."""
    with open(path, "w") as f:
        for t, lists in enumerate(frames):
            f.write(sep.join(["id", "cn", name]) + "\n")
            for i in rows[t]:
                vals = lists[int(i)]
                f.write(sep.join([str(int(i) + 1), str(len(vals))] + [fmt(v) for v in vals]) + "\n")


def oracle_weights(case):
    """What the weight file actually encodes (float of the written decimal strings)."""
    if case["weights"] is None:
        return None
    fmt = case["wfmt"]
    return [[np.array([float(fmt % v) for v in w]) for w in fr] for fr in case["weights"]]


def make_snapshots(case, pos=None):
    pos = case["pos"] if pos is None else pos
    snaps = [snapshot_from(cell_of(case, t), p, case["types"], ts) for t, (p, ts) in enumerate(zip(pos, case["timesteps"]))]
    return Snapshots(nsnapshots=len(snaps), snapshots=snaps)


def write_files(case, tag=""):
    nb = os.path.join(os.getcwd(), f"nb{tag}.dat")
    write_listfile(nb, case["lists"], "neighborlist", case["rows"], case["sep"], lambda j: str(int(j) + 1))
    wf = ""
    if case["weights"] is not None:
        wf = os.path.join(os.getcwd(), f"w{tag}.dat")
        fmt = case["wfmt"]
        write_listfile(wf, case["weights"], case["wname"], case["wrows"], case["sep"], lambda v: fmt % v)
    return nb, wf


def run_boo(case, nb, wf, pos=None, ppp=None, **extra):
    kw = dict(l=case["l"], neighborfile=nb, ppp=np.array(case["ppp"] if ppp is None else ppp, dtype=int))
    if wf:
        kw["weightsfile"] = wf
    if case["Nmax"] is not None:
        kw["Nmax"] = int(case["Nmax"])
    kw.update(extra)
    return boo_2d(make_snapshots(case, pos), **kw)


def eff_nmax(case):
    return 10 if case["Nmax"] is None else int(case["Nmax"])


def phi_of(name, boo, T, N):
    a = arr(name, getattr(boo, "ParticlePhi", None), shape=(T, N))
    require(a.dtype.kind in "fc", lambda: f"{name}: dtype {a.dtype}")
    return a.astype(np.complex128)


def compare_psi(name, got, ref, tol, amb, factor=1.0):
    ok = ~amb
    bad = ok & ~(np.abs(got - ref) <= factor * tol)
    if bad.any():
        t, i = (int(v) for v in np.argwhere(bad)[0])
        raise Violation(f"{name}: {int(bad.sum())}/{int(ok.sum())} asserted values differ; first at frame {t}, particle {i}: "
                        f"got {got[t, i]!r}, reference {ref[t, i]!r} (|diff| = {abs(got[t, i] - ref[t, i]):.3e}, "
                        f"allowed {factor * tol[t, i]:.3e})")


def reference(case, pos=None, ppp=None, weights="case"):
    w = oracle_weights(case) if weights == "case" else weights
    return R.psi_traj(case["pos"] if pos is None else pos, Hs_of(case),
                      np.asarray(case["ppp"] if ppp is None else ppp), case["lists"], case["l"], w, eff_nmax(case))


def common_tags(case, amb=None):
    cns = [min(len(L), eff_nmax(case)) for fr in case["lists"] for L in fr]
    ppp = np.asarray(case["ppp"])
    tags = [case["cell"]["kind"], "ppp" + "".join(str(int(p)) for p in ppp), f"T{len(case['pos'])}", f"l{case['l']:02d}",
            "w-" + case["wclass"], "lists-" + case["lists_kind"], "Nmax-" + case["nclass"], "cfg-" + case["kind"].split("-jit")[0],
            "rows-shuffled" if any(np.any(np.diff(r) < 0) for r in case["rows"]) else "rows-sorted",
            "N<8" if len(case["types"]) < 8 else "N>=8"]
    if case.get("outside"):
        tags.append("outside-box")
    if case["weights"] is not None:
        tags.append("wfmt" + case["wfmt"])
        if any(np.any(w < 0) for fr in oracle_weights(case) for w in fr):
            tags.append("w-has-negative")
    if len(set(cns)) > 1:
        tags.append("cn-varies")
    per_frame = [[min(len(L), eff_nmax(case)) for L in fr] for fr in case["lists"]]
    if any(len(set(f)) > 1 for f in per_frame):
        tags.append("cn-varies-in-frame")
    if any(min(f) == 1 and max(f) >= 3 for f in per_frame):
        tags.append("frame-has-cn1-and-cn>=3")
    if min(cns) == 1:
        tags.append("has-single-neighbour-particle")
    if case.get("sheared"):
        tags.append("sheared-per-frame-tilt")
    if amb is not None and amb.any():
        tags.append("has-ambiguous")
    return tags


def is_nontrivial(case, ref, amb):
    cns = [min(len(L), eff_nmax(case)) for fr in case["lists"] for L in fr]
    varied = len(set(cns)) > 1 or case["wclass"] in ("positive", "signed") or len(case["pos"]) >= 2
    live = bool(np.any((np.abs(ref) > 1e-3) & ~amb))
    return bool(varied and live)


# ============================================================================= facet: order


@st.composite
def order_case(draw):
    case = draw(case_st())
    N = len(case["types"])
    case["shift"] = draw(hnp.arrays(np.int64, (N, 2), elements=st.integers(-2, 2)))
    case["translate"] = draw(hnp.arrays(np.float64, (2,), elements=fl(-3.0, 3.0)))
    case["save_phi"] = draw(st.booleans())
    return case


def check_order(case):
    T, N = len(case["pos"]), len(case["types"])
    nb, wf = write_files(case)
    extra = {"output_phi": os.path.join(os.getcwd(), "phi.npy")} if case["save_phi"] else {}
    boo = run_boo(case, nb, wf, **extra)
    phi = phi_of("ParticlePhi", boo, T, N)
    ref, tol, amb = reference(case)
    compare_psi("ParticlePhi vs definition", phi, ref, tol, amb)
    require(bool(np.all(np.abs(phi) <= 1.0 + 1e-12)),
            lambda: f"|psi| exceeds one: max |psi| = {np.abs(phi).max()!r} (nan counts as a failure)")
    if case["save_phi"]:
        require(os.path.exists(extra["output_phi"]), "output_phi given but no file written")
        close("output_phi file", np.load(extra["output_phi"]), phi, rtol=0, atol=0)
    # all-equal weights are the unweighted order parameter (times the sign of the common weight)
    if case["wclass"] == "equal":
        plain = phi_of("ParticlePhi (no weights)", run_boo(case, nb, ""), T, N)
        sign = np.sign(case["weights"][0][0][0])
        compare_psi("all-equal weights vs unweighted", phi, sign * plain, tol, amb, factor=2.0)
    # periodic images of single particles / a global translation change nothing
    ppp = np.asarray(case["ppp"])
    moved = [p + (case["shift"] * ppp) @ Hk + case["translate"] for p, Hk in zip(case["pos"], Hs_of(case))]
    refm, tolm, ambm = reference(case, pos=moved)
    boo_m = run_boo(case, nb, wf, pos=moved)
    phim = phi_of("ParticlePhi (shifted images)", boo_m, T, N)
    compare_psi("invariance under lattice-vector shifts + translation", phim, phi, tol + tolm, amb | ambm)
    # state between calls: lthorder() called again on the FIRST object (as the repository's test does), after a second
    # object with other positions has been evaluated, then with another output file, and on the second object:
    # every call must return the numbers of its own object
    again = arr("lthorder() second call", boo.lthorder(), shape=(T, N)).astype(np.complex128)
    close("lthorder() second call on the first object", again, phi, rtol=0, atol=1e-14)
    phi2 = os.path.join(os.getcwd(), "phi2.npy")
    third = arr("lthorder(output_phi)", boo.lthorder(phi2), shape=(T, N)).astype(np.complex128)
    close("lthorder(output_phi) third call", third, phi, rtol=0, atol=1e-14)
    require(os.path.exists(phi2), "lthorder(output_phi): no file written")
    close("lthorder(output_phi) file", np.load(phi2), phi, rtol=0, atol=1e-14)
    close("lthorder() on the second object", arr("lthorder()", boo_m.lthorder(), shape=(T, N)).astype(np.complex128), phim, rtol=0, atol=1e-14)
    tags = common_tags(case, amb) + (["psi0-clearly-nonzero"] if np.all(np.abs(ref[:, 0]) > 0.1) else [])
    return {"nontrivial": is_nontrivial(case, ref, amb), "tags": tags,
            "extra": {"ambiguous_particles": int(amb.sum()), "asserted_particles": int((~amb).sum())}}


# ============================================================================= facet: rotation


@st.composite
def rotation_case(draw):
    akind = draw(pick(["special", "generic", "generic"]))
    araw = draw(_u32)
    case = draw(case_st(frames=(1, 3), force_open=True, outside=False))
    l = case["l"]
    special = [np.pi / 2, np.pi, -np.pi / 2, np.pi / l, 2 * np.pi / l, np.pi / (2 * l), 1.0, -2.5]
    case["alpha"] = float(special[araw % len(special)]) if akind == "special" else 2 * np.pi * _unit(araw) - np.pi
    case["centre"] = draw(hnp.arrays(np.float64, (2,), elements=fl(-20.0, 20.0)))
    return case


def check_rotation(case):
    T, N = len(case["pos"]), len(case["types"])
    l, a = case["l"], float(case["alpha"])
    nb, wf = write_files(case)
    phi0 = phi_of("ParticlePhi", run_boo(case, nb, wf), T, N)
    ref0, tol0, amb0 = reference(case)
    compare_psi("ParticlePhi vs definition (open boundaries)", phi0, ref0, tol0, amb0)
    c = case["centre"]
    Rm = np.array([[np.cos(a), np.sin(a)], [-np.sin(a), np.cos(a)]])  # row vectors: p' = c + (p - c) Rm
    rot = [c + (p - c) @ Rm for p in case["pos"]]
    _, tol1, amb1 = reference(case, pos=rot)
    phi1 = phi_of("ParticlePhi (rotated)", run_boo(case, nb, wf, pos=rot), T, N)
    compare_psi(f"rotation by alpha = {a!r}: psi' = e^(i l alpha) psi", phi1, np.exp(1j * l * a) * phi0, tol0 + tol1, amb0 | amb1)
    mir = [p * np.array([1.0, -1.0]) for p in case["pos"]]
    phi2 = phi_of("ParticlePhi (mirrored)", run_boo(case, nb, wf, pos=mir), T, N)
    compare_psi("mirror y -> -y: psi' = conj(psi)", phi2, np.conj(phi0), 2 * tol0, amb0)
    phase = (l * a) % (2 * np.pi)
    tags = common_tags(case, amb0) + ["phase-trivial" if min(phase, 2 * np.pi - phase) < 1e-6 else "phase-generic"]
    return {"nontrivial": bool(is_nontrivial(case, ref0, amb0) and min(phase, 2 * np.pi - phase) > 1e-6), "tags": tags,
            "extra": {"ambiguous_particles": int(amb0.sum())}}


# ============================================================================= facet: lattices

FOLD = {"triangular": 6, "square": 4, "honeycomb": 3}


def _lattice_points(kind, box, n, m, a):
    """Returns (pos, H, bond length).  Points of an n x m patch / periodic cell of the given lattice, unrotated."""
    s3 = np.sqrt(3.0)
    if kind == "square":
        a1, a2, basis, bond = np.array([a, 0.0]), np.array([0.0, a]), [np.zeros(2)], a
    elif kind == "triangular":
        a1, a2, basis, bond = np.array([a, 0.0]), np.array([a / 2, a * s3 / 2]), [np.zeros(2)], a
    else:
        a1, a2 = np.array([a, 0.0]), np.array([a / 2, a * s3 / 2])
        basis, bond = [np.zeros(2), (a1 + a2) / 3.0], a / s3
    if box == "ortho" and kind != "square":
        # rectangular conventional cell (a, sqrt(3) a) holding two primitive cells
        cells = [(i, j) for i in range(n) for j in range(m)]
        rect_basis = [b for b in basis] + [b + a2 for b in basis]
        pos = np.array([np.array([i * a, j * a * s3]) + b for (i, j) in cells for b in rect_basis])
        pos[:, 0] = pos[:, 0] % (n * a)
        H = np.diag([n * a, m * a * s3])
    else:
        pos = np.array([i * a1 + j * a2 + b for i in range(n) for j in range(m) for b in basis])
        if box == "ortho":
            H = np.diag([n * a, m * a])
        elif box == "tri":
            if kind == "square":
                H = np.array([[n * a, 0.0], [a, m * a]])       # sheared by one lattice constant: still a lattice cell
            else:
                H = np.array([n * a1, m * a2])
        else:
            H = np.diag([4.0 * (n + m) * a] * 2)                # irrelevant (open boundaries), just encloses the patch
    return pos, H, bond


@st.composite
def lattice_case(draw):
    kind = draw(pick(["triangular", "square", "honeycomb"]))
    box = draw(pick(["ortho", "tri", "open"]))
    l = draw(st.one_of(pick([k for k in range(1, 13) if k % FOLD[kind] == 0]), pick(range(1, 13))))
    wclass = draw(pick(("none", "none", "positive", "signed")))
    n = draw(st.integers(3, 4))
    m = draw(st.integers(3, min(n, 4))) if box == "tri" else draw(st.integers(3 if kind == "square" or box != "ortho" else 2, 4))
    a = draw(st.one_of(st.sampled_from([1.0, 1.12, 2.0]), nice_float(0.5, 3.0)))
    pos, H, bond = _lattice_points(kind, box, n, m, a)
    N = len(pos)
    alpha = 0.0
    lo = np.zeros(2)
    ppp = np.ones(2, dtype=int)
    if box == "open":
        ppp = np.zeros(2, dtype=int)
        alpha = draw(st.one_of(st.sampled_from([0.0, np.pi / 7, np.pi / 2, 0.3]), _u32.map(lambda k: 2 * np.pi * _unit(k) - np.pi)))
        Rm = np.array([[np.cos(alpha), np.sin(alpha)], [-np.sin(alpha), np.cos(alpha)]])
        pos = pos @ Rm + draw(hnp.arrays(np.float64, (2,), elements=fl(-5.0, 5.0)))
    else:
        lo = np.array([draw(nice_float(-20.0, 20.0)) for _ in range(2)])
        off = draw(hnp.arrays(np.int64, (N, 2), elements=st.integers(-1, 1))) if draw(st.booleans()) else np.zeros((N, 2))
        pos = lo + pos + draw(hnp.arrays(np.float64, (2,), elements=fl(-1.0, 1.0))) + off @ H
    # neighbour shells by distance (harness side, reference minimum image)
    D = _nearest_table(pos, H, ppp)
    lists = [np.flatnonzero(D[i] < 1.05 * bond).astype(int) for i in range(N)]
    perm = np.random.default_rng(draw(_u32))
    lists = [perm.permutation(L) for L in lists]
    cell = {"d": 2, "kind": "tri" if box == "tri" else "ortho", "H": H, "lo": lo, "origin": "arbitrary"}
    case = {"d": 2, "cell": cell, "pos": [pos], "types": np.ones(N, dtype=int), "ppp": ppp, "K": 1,
            "kind": f"{kind}", "timesteps": [0], "outside": False, "lattice": kind, "box": box, "alpha": float(alpha),
            "lists": [lists], "lists_kind": "shell", "Nmax": None, "nclass": "default", "rows": [np.arange(N)],
            "sep": " ", "seed": 0, "bond": float(bond)}
    case.update(draw(weights_st(case, wclass=wclass)))
    case["l"] = l
    return case


def check_lattice(case):
    N = len(case["types"])
    kind, fold, l = case["lattice"], FOLD[case["lattice"]], case["l"]
    lists = case["lists"][0]
    cn = np.array([len(L) for L in lists])
    if case["box"] != "open":
        assert np.all(cn == fold), f"harness lattice construction broken: cn = {cn}"   # harness error, not a violation
    assert cn.min() >= 1
    nb, wf = write_files(case)
    phi = phi_of("ParticlePhi", run_boo(case, nb, wf), 1, N)
    ref, tol, amb = reference(case)
    assert not amb.any(), "harness lattice construction produced ambiguous bonds"
    compare_psi("ParticlePhi vs definition (lattice)", phi, ref, tol, amb)
    full = cn == fold
    w = oracle_weights(case)
    ratio = np.ones(N) if w is None else np.array([wi.sum() / np.abs(wi).sum() for wi in w[0]])
    mod = np.abs(phi[0])
    tl = np.maximum(tol[0], 1e-12)
    require(bool(np.all(mod <= 1 + 1e-12)), lambda: f"|psi| exceeds one on a lattice: {mod.max()!r}")
    if l % fold == 0:
        bad = full & ~(np.abs(mod - np.abs(ratio)) <= tl)
        require(not bad.any(), lambda: f"perfect {kind} lattice, l = {l}: |psi| must be {np.abs(ratio)[bad][0]!r} "
                                       f"(1 without signed weights) for full-shell particles, got {mod[bad][0]!r}")
        if kind != "honeycomb":
            want = np.exp(1j * l * case["alpha"]) * ratio
            bad = full & ~(np.abs(phi[0] - want) <= tl + 1e-12)
            require(not bad.any(), lambda: f"perfect {kind} lattice rotated by {case['alpha']!r}: psi_{l} must be "
                                           f"e^(i l alpha) = {want[bad][0]!r}, got {phi[0][bad][0]!r}")
    elif w is None:
        bad = full & ~(mod <= tl)
        require(not bad.any(), lambda: f"perfect {kind} lattice, l = {l} (not a multiple of {fold}): psi must vanish, got {mod[bad][0]!r}")
    tags = [kind, "box-" + case["box"], f"l{l:02d}", "l-matched" if l % fold == 0 else "l-unmatched", "w-" + case["wclass"],
            "full-shells-only" if full.all() else "has-edge-particles"]
    return {"nontrivial": bool(full.any() and (l % fold == 0 or w is None)), "tags": tags,
            "extra": {"full_shell_particles": int(full.sum())}}


# ============================================================================= facets: derived quantities


@st.composite
def tavg_case(draw):
    T = draw(pick(range(2, 8)))
    w = draw(pick(range(1, T)))
    w2 = draw(pick(range(1, T)))
    dyadic = draw(pick([True, False]))
    mode = draw(pick([True, False]))
    case = draw(case_st(frames=(T, T), spacing="even", nmax=12))
    if dyadic:
        dt = 2.0 ** -draw(st.integers(4, 12))
        frac = draw(st.one_of(st.just(0.0), st.just(0.0), st.sampled_from([0.25, 0.5, 0.75])))
    else:
        dt = draw(st.sampled_from([0.002, 0.005, 0.001, 0.01, 1.0]))
        frac = draw(st.integers(5, 95)) / 100.0
    interval = (case["timesteps"][1] - case["timesteps"][0]) * dt
    case.update(dt=dt, w=w, w2=w2, frac=frac, period=(w + frac) * interval, dyadic=dyadic,
                average_complex=mode, save=draw(st.booleans()))
    return case


def check_tavg(case):
    T, N = len(case["pos"]), len(case["types"])
    nb, wf = write_files(case)
    boo = run_boo(case, nb, wf)
    phi = phi_of("ParticlePhi", boo, T, N)
    interval = (case["timesteps"][1] - case["timesteps"][0]) * case["dt"]

    def one_call(tag, w, mode, save):
        period = (w + case["frac"]) * interval
        q = period / interval
        assert int(np.floor(q + 1e-9)) == w and int(np.floor(q - 1e-9)) == w or case["frac"] == 0.0 and q == w, "harness: window ambiguous"
        kw = dict(time_period=period, dt=case["dt"], average_complex=mode)
        out = os.path.join(os.getcwd(), f"tavg{tag}.npy")
        if save:
            kw["outputfile"] = out
        res = boo.time_average(**kw)
        name = f"time_average[{tag} call: window {w}, average_complex={mode}]"
        require(isinstance(res, tuple) and len(res) == 2, lambda: f"{name} must return (values, middle ids), got {type(res).__name__}")
        vals = arr(f"{name} values", res[0], shape=(T - w, N)).astype(np.complex128)
        ids = arr(f"{name} middle ids", res[1], shape=(T - w,))
        if mode:
            want = R.window_average(phi, w)
        else:
            want = R.window_average(np.abs(phi), w) * np.exp(1j * R.window_average(np.angle(phi), w))
        close(f"{name} values", vals, want, rtol=1e-12, atol=1e-13)
        # reported index: a central frame of the window n .. n+w-1, advancing by one per row
        n = np.arange(T - w)
        require(bool(np.all(np.abs(ids - (n + (w - 1) / 2.0)) <= 0.5)) and bool(np.all(ids == np.round(ids))),
                lambda: f"{name}: middle snapshot ids {ids.tolist()} are not central frames of the windows "
                        f"[n, n+{w - 1}] for n = 0..{T - w - 1}")
        require(bool(np.all(np.diff(ids) == 1)), lambda: f"{name}: middle snapshot ids {ids.tolist()} do not advance by one per window")
        if save:
            require(os.path.exists(out), f"{name}: outputfile given but not written")
            close(f"{name} saved array", np.load(out), vals, rtol=0, atol=0)
        # ParticlePhi itself must not be modified by the call
        close(f"ParticlePhi after {name}", boo.ParticlePhi, phi, rtol=0, atol=0)

    w, w2, mode = case["w"], case["w2"], case["average_complex"]
    one_call("first", w, mode, case["save"])
    # same object, other arguments (state carried between calls must not leak): the other averaging mode with another
    # window, then the first arguments once more
    one_call("second", w2, not mode, False)
    one_call("third", w, mode, False)
    tags = common_tags(case) + [f"w{w}", "exact-multiple" if case["frac"] == 0 else "fractional-period",
                                "complex-mean-first" if mode else "modulus-phase-mean-first",
                                "dt-dyadic" if case["dyadic"] else "dt-decimal", "w-even" if w % 2 == 0 else "w-odd",
                                "second-window-differs" if w2 != w else "second-window-same"]
    if T == 2:
        tags.append("T2-window1")
    return {"nontrivial": bool(max(w, w2) >= 2 and T - min(w, w2) >= 2 and np.abs(phi).max() > 1e-3), "tags": tags}


@st.composite
def scorr_case(draw):
    nb = draw(pick(range(2, 31)))
    case = draw(case_st(frames=(1, 3), nmax=14, outside=draw(st.booleans())))
    Lmin = float(np.diag(case["cell"]["H"]).min())
    case.update(nbins=nb, rdelta=Lmin / 2.0 / (nb + 0.5), save=draw(st.booleans()))
    return case


def check_scorr(case):
    T, N = len(case["pos"]), len(case["types"])
    nb, wf = write_files(case)
    boo = run_boo(case, nb, wf)
    phi = phi_of("ParticlePhi", boo, T, N)
    nbins, rdelta = case["nbins"], case["rdelta"]
    L = np.diag(case["cell"]["H"]).copy()
    assert int(L.min() / 2.0 / rdelta) == nbins
    out = os.path.join(os.getcwd(), "gl.csv")
    df = boo.spatial_corr(rdelta=rdelta, outputfile=out) if case["save"] else boo.spatial_corr(rdelta=rdelta)
    columns("spatial_corr", df, ["r", "gr", "gA"])
    r, gr, gA = (arr(f"spatial_corr[{c}]", col("spatial_corr", df, c), shape=(nbins,)) for c in ("r", "gr", "gA"))
    acc = [R.conditional_gr_complex(p, cell_of(case, t)["H"], L, case["ppp"], phi[t], rdelta, nbins) for t, p in enumerate(case["pos"])]
    tie_tri = case["cell"]["kind"] == "tri" and any(a[6] for a in acc)
    r_ref = acc[0][0]
    lo = sum(a[1] for a in acc) / T
    hi = sum(a[2] for a in acc) / T
    gA_ref = sum(a[3] for a in acc) / T
    slack = sum(a[4] for a in acc) / T
    namb = sum(a[5] for a in acc)
    close("spatial_corr r", r, r_ref, rtol=1e-9, atol=1e-12)
    if not tie_tri:
        tol = 1e-9 * (1 + np.abs(hi))
        bad = ~((gr >= lo - tol) & (gr <= hi + tol))
        require(not bad.any(), lambda: f"spatial_corr gr: bin {int(np.flatnonzero(bad)[0])}: got {gr[bad][0]!r}, "
                                       f"reference interval [{lo[bad][0]!r}, {hi[bad][0]!r}]")
        scale = np.abs(phi).max() ** 2
        tolA = slack + 1e-9 * (np.abs(gA_ref) + scale * hi) + 1e-12
        bad = ~(np.abs(gA - gA_ref) <= tolA)
        require(not bad.any(), lambda: f"spatial_corr gA: bin {int(np.flatnonzero(bad)[0])}: got {gA[bad][0]!r}, reference "
                                       f"{gA_ref[bad][0]!r} +- {tolA[bad][0]:.3e} (weight Re(A_i conj A_j), frame average)")
    if case["save"]:
        import pandas as pd
        require(os.path.exists(out), "spatial_corr: outputfile given but not written")
        f = pd.read_csv(out)
        columns("spatial_corr csv", f, ["r", "gr", "gA"])
        for c, v in (("r", r), ("gr", gr), ("gA", gA)):
            close(f"spatial_corr csv[{c}]", f[c].values, v, rtol=0, atol=5.1e-9)
    filled = int(np.sum(hi > 0))
    tags = common_tags(case) + ["edge-ambiguous-pairs" if namb else "no-edge-pairs", "bins<=8" if nbins <= 8 else "bins>8"]
    if np.all(np.abs(phi[:, 0]) > 0.1):
        tags.append("psi0-clearly-nonzero")
    if tie_tri:
        tags.append("skipped-tri-tie")
    return {"nontrivial": bool(filled >= 2 and np.abs(gA_ref).max() > 1e-6 and not tie_tri), "tags": tags,
            "extra": {"edge_ambiguous_pairs": int(namb)}}


@st.composite
def tcorr_case(draw):
    case = draw(case_st(frames=(1, 6), nmax=12))
    case.update(dt=draw(st.sampled_from([0.002, 0.005, 1.0, 2.0 ** -7])), save=draw(st.booleans()))
    return case


def check_tcorr(case):
    T, N = len(case["pos"]), len(case["types"])
    nb, wf = write_files(case)
    boo = run_boo(case, nb, wf)
    phi = phi_of("ParticlePhi", boo, T, N)
    out = os.path.join(os.getcwd(), "glt.csv")
    df = boo.time_corr(dt=case["dt"], outputfile=out) if case["save"] else boo.time_corr(dt=case["dt"])
    columns("time_corr", df, ["t", "time_corr"])
    t = arr("time_corr[t]", col("time_corr", df, "t"), shape=(T,))
    C = arr("time_corr[time_corr]", col("time_corr", df, "time_corr"), shape=(T,))
    t_ref, C_ref, c0 = R.time_correlation(phi, case["timesteps"], case["dt"])
    close("time_corr t", t, t_ref, rtol=1e-12, atol=1e-12)
    live = c0 > 1e-6 * N     # psi identically ~0 (e.g. symmetric shells at a mismatched l): 0/0, nothing is promised
    if live:
        close("time_corr", C, C_ref, rtol=1e-9, atol=1e-10)
        require(C[0] == 1.0, lambda: f"time_corr at lag zero must be exactly one, got {C[0]!r}")
        if case["save"]:
            import pandas as pd
            require(os.path.exists(out), "time_corr: outputfile given but not written")
            f = pd.read_csv(out)
            columns("time_corr csv", f, ["t", "time_corr"])
            close("time_corr csv", f["time_corr"].values, C, rtol=0, atol=5.1e-9)
    tags = common_tags(case) + ["spacing-" + case["spacing"], "motion-" + case["motion"], "live" if live else "psi-all-zero"]
    return {"nontrivial": bool(live and T >= 3), "tags": tags}


# ============================================================================= facet: files written by the library


@st.composite
def libfiles_case(draw):
    writer = draw(pick(["Nnearests", "cutoff", "voronoi", "voronoi"]))
    if writer == "voronoi":
        traj = draw(traj_st(frames=(1, 3), cell_kind="ortho", allow_open=False, nmin=9, nmax=20, outside=False,
                            origin=draw(st.sampled_from(["zero", "arbitrary", "centred"])), kinds=("gas", "cluster")))
    else:
        traj = draw(traj_st(frames=(1, 3), nmin=4, nmax=16))
    case = dict(traj)
    if writer == "voronoi":
        # the tessellation needs distinct points inside the box (coincident points make voro++ spin): jittered grid,
        # separation >= 0.3/m in fractional coordinates by construction
        H, lo = case["cell"]["H"], case["cell"]["lo"]
        N0 = len(case["types"])
        m = int(np.ceil(np.sqrt(N0)))
        sites = np.array(draw(st.permutations(range(m * m))))[:N0]
        grid = np.stack([sites // m, sites % m], axis=1).astype(float)
        case["pos"] = [lo + (((grid + 0.5 + 0.35 * draw(hnp.arrays(np.float64, (N0, 2), elements=fl(-1.0, 1.0)))) / m) % 1.0) @ H
                       for _ in case["pos"]]
        case["kind"] = "jittered-grid"
    N = len(case["types"])
    case.update(writer=writer, l=draw(pick(range(1, 13))), k=draw(pick(range(1, min(N - 1, 8) + 1))),
                rfac=draw(st.sampled_from([1.0, 1.05, 1.3, 1.7])), use_weights=draw(pick([True, True, False])),
                Nmax=draw(st.sampled_from([None, 12, 30])))
    return case


def check_libfiles(case):
    from PyMatterSim.neighbors.calculate_neighbors import Nnearests, cutoffneighbors

    T, N = len(case["pos"]), len(case["types"])
    snaps = make_snapshots(case)
    ppp = np.array(case["ppp"], dtype=int)
    H = case["cell"]["H"]
    wf = ""
    if case["writer"] == "Nnearests":
        nbf = os.path.join(os.getcwd(), "nn.dat")
        Nnearests(snaps, N=int(case["k"]), ppp=ppp, fnfile=nbf)
    elif case["writer"] == "cutoff":
        # a cut-off that gives every particle at least one neighbour: above the largest nearest-neighbour distance
        dmax = max(_nearest_table(p, Hk, ppp).min(axis=1).max() for p, Hk in zip(case["pos"], Hs_of(case)))
        nbf = os.path.join(os.getcwd(), "rc.dat")
        cutoffneighbors(snaps, r_cut=float(dmax * case["rfac"] * (1 + 1e-6)), ppp=ppp, fnfile=nbf)
    else:
        from PyMatterSim.neighbors.freud_neighbors import cal_neighbors
        cal_neighbors(snaps, outputfile=os.path.join(os.getcwd(), "vor"))
        nbf = os.path.join(os.getcwd(), "vor.neighbor.dat")
        if case["use_weights"]:
            wf = os.path.join(os.getcwd(), "vor.edgelength.dat")
    lists = R.parse_list_blocks(open(nbf).read(), N, T, as_float=False)
    weights = R.parse_list_blocks(open(wf).read(), N, T, as_float=True) if wf else None
    cn = np.array([len(L) for fr in lists for L in fr])
    if cn.min() < 1 or (weights is not None and any(np.abs(w).sum() == 0 for fr in weights for w in fr)):
        return {"nontrivial": False, "tags": ["writer-" + case["writer"], "skipped-empty-shell"]}
    nmax = 10 if case["Nmax"] is None else case["Nmax"]
    kw = dict(l=case["l"], neighborfile=nbf, ppp=ppp)
    if wf:
        kw["weightsfile"] = wf
    if case["Nmax"] is not None:
        kw["Nmax"] = case["Nmax"]
    boo = boo_2d(make_snapshots(case), **kw)
    phi = phi_of("ParticlePhi", boo, T, N)
    ref, tol, amb = R.psi_traj(case["pos"], Hs_of(case), ppp, lists, case["l"], weights, nmax)
    compare_psi(f"ParticlePhi vs definition (files from {case['writer']})", phi, ref, tol, amb)
    require(bool(np.all(np.abs(phi) <= 1.0 + 1e-12)), lambda: f"|psi| exceeds one: {np.abs(phi).max()!r}")
    tags = ["writer-" + case["writer"], case["cell"]["kind"], "ppp" + "".join(str(int(p)) for p in ppp), f"T{T}",
            "weights-edgelength" if wf else "unweighted", "cn-varies" if len(set(cn.tolist())) > 1 else "cn-uniform",
            "truncated" if cn.max() > nmax else "not-truncated"] + (["sheared-per-frame-tilt"] if case.get("sheared") else [])
    live = bool(np.any((np.abs(ref) > 1e-3) & ~amb))
    return {"nontrivial": bool(live and (len(set(cn.tolist())) > 1 or wf or T >= 2)), "tags": tags,
            "extra": {"ambiguous_particles": int(amb.sum())}}


# ============================================================================= registry


def describe(case):
    d = {"cell": case["cell"]["kind"], "H": np.round(case["cell"]["H"], 4).tolist(), "ppp": np.asarray(case["ppp"]).tolist(),
         "N": int(len(case["types"])), "T": len(case["pos"]), "l": int(case["l"]), "cfg": case.get("kind"),
         "timesteps": list(case["timesteps"])}
    for k in ("lists_kind", "Nmax", "wclass", "wfmt", "alpha", "lattice", "box", "w", "period", "dt", "average_complex",
              "rdelta", "nbins", "writer", "spacing"):
        if k in case:
            v = case[k]
            d[k] = float(v) if isinstance(v, (float, np.floating)) else v
    if "lists" in case:
        d["lists0"] = [np.asarray(L).tolist() for L in case["lists"][0][:3]]
    d["pos0"] = np.round(case["pos"][0][:3], 4).tolist()
    return d


FACETS = [
    Facet("order", order_case(), check_order, quick=800, thorough=40000, describe=describe, shards_quick=4,
          rule="ParticlePhi / lthorder vs the definition, |psi| <= 1, equal weights == unweighted, image-shift and "
               "translation invariance; non-trivial as in RULE"),
    Facet("rotation", rotation_case(), check_rotation, quick=400, thorough=20000, describe=describe, shards_quick=2,
          rule="open boundaries: rotation by alpha multiplies psi by e^{i l alpha}, mirror conjugates; non-trivial = RULE "
               "and l*alpha not a multiple of 2 pi"),
    Facet("lattices", lattice_case(), check_lattice, quick=400, thorough=20000, describe=describe, shards_quick=2,
          rule="perfect triangular / square / honeycomb lattices in periodic orthogonal, periodic triclinic and open "
               "rotated settings: |psi_l| = 1 and psi_l = e^{i l alpha} for matching l, 0 otherwise; non-trivial = some "
               "particle has a full shell and a closed-form value is asserted"),
    Facet("time_average", tavg_case(), check_tavg, quick=400, thorough=20000, describe=describe, shards_quick=2,
          rule="time_average (complex mean / modulus-phase mean) vs window mean of ParticlePhi, T - w rows, central-frame "
               "indices; non-trivial = window >= 2 frames and >= 2 rows"),
    Facet("spatial_corr", scorr_case(), check_scorr, quick=300, thorough=12000, describe=describe, shards_quick=2,
          rule="spatial_corr vs frame-averaged pair histogram weighted by Re(psi_i conj psi_j) with the documented "
               "normalisation (interval rule at bin edges); non-trivial = >= 2 populated bins and non-zero gA"),
    Facet("time_corr", tcorr_case(), check_tcorr, quick=400, thorough=20000, describe=describe, shards_quick=2,
          rule="time_corr vs origin-averaged (even spacing) / single-origin (uneven) normalised autocorrelation of "
               "ParticlePhi, time axis (ts - ts0) dt, lag zero exactly one; non-trivial = >= 3 frames and psi not ~0"),
    Facet("libfiles", libfiles_case(), check_libfiles, quick=200, thorough=8000, describe=describe, shards_quick=2,
          rule="neighbour / weight files produced by Nnearests, cutoffneighbors and the freud Voronoi writer (edge "
               "lengths as weights) are consumed consistently; oracle parses the files independently"),
]

MANIFEST = {
    "text": ("boo_2d.ParticlePhi equals mean_j e^{i l theta_ij} (or sum_j w_j e^{i l theta_ij} / sum_j |w_j| with a weight "
             "file, incl. negative and zero weights) over minimum-image bonds for generated 2D trajectories (orthogonal / "
             "triclinic cells, all masks, 1..6 frames, l 1..12, synthetic neighbour and weight files in the library format "
             "with shuffled rows and all Nmax regimes); |psi| <= 1; exactly 1 (and e^{i l alpha}) on perfect triangular, "
             "square and honeycomb lattices; rotation by alpha multiplies every value by e^{i l alpha}, mirror conjugates; "
             "time_average (both modes), spatial_corr and time_corr equal the window mean, the conditional g(r) with "
             "weight Re(psi_i conj psi_j) and the normalised autocorrelation of those complex numbers. Facets: order, "
             "rotation, lattices, time_average, spatial_corr, time_corr, libfiles."),
    "note": ("Exploration (sampled), small systems (N <= 64). Derived quantities are checked as functions of the library's "
             "own ParticlePhi. Minimum image = fractional rounding (C02); ties / near-zero bonds not asserted. The Voronoi "
             "geometry of freud is trusted (only the hand-off through the files is checked). Trusted base: pbt/ref/"
             "boo2ref.py, pbt/ref/geom.py."),
    "technique": ("property-based testing (Hypothesis): reference-model differential (independent psi_l, window mean, "
                  "conditional g(r), time correlation) + metamorphic relations (rotation covariance e^{i l alpha}, mirror "
                  "conjugation, periodic-image and translation invariance) + closed-form lattice values"),
}
