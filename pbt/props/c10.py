"""C10 — 2D bond-orientational order (static.boo.boo_2d) equals the l-fold definition.

Oracles
  order        reference model  psi_i = mean_j e^{i l theta_ij}  /  sum_j w_j e^{i l theta_ij} / sum_j |w_j|  over the
               minimum-image bonds (pbt.ref.boo2ref + pbt.ref.geom), |psi| <= 1, all-equal weights == unweighted,
               invariance under lattice-vector shifts of single particles (periodic axes) and global translation
  rotation     metamorphic: open boundaries, rotate all positions by alpha  =>  psi -> e^{i l alpha} psi;
               mirror y -> -y  =>  psi -> conj(psi)
  lattices     perfect triangular / square / honeycomb lattices (periodic orthogonal box, periodic triclinic
               primitive box, open rotated patch): |psi_l| = 1 when l is a multiple of 6 / 4 / 3, psi_l = e^{i l alpha}
               (triangular, square), psi_l = 0 for the other l, positive weights keep |psi| = 1, signed weights give
               |sum w| / sum |w|
  time_average / spatial_corr / time_corr   reference model on the library's own ParticlePhi (which `order` ties to
               the definition): window mean (C16 text), frame-averaged conditional g(r) of a complex scalar with
               weight Re(A_i conj A_j) (C13 text), origin-averaged normalised autocorrelation (C14 text)
  history      every method named by the statement twice on one object in a drawn order, interleaved with a second object
               of the same l; every array / DataFrame handed out is kept alive and re-compared bit for bit after every step
  sizes        the same oracles at N around 32 / 64 / 100 / 128 (thorough: .. 1025) and 9..11 / 31..33 / 63..65 neighbours
  libfiles     neighbour / weight files written by the library's own writers (Nnearests, cutoffneighbors,
               freud Voronoi + edge lengths) instead of the harness writer; parsed independently for the oracle

Preconditions (only inputs real callers pass): two-dimensional snapshots with the same N / box in all frames; every
particle has >= 1 listed neighbour (lthorder divides by cn, boo.py L537) and sum |w| > 0 (L550); neighbour ids
1-based; weight file consistent with the neighbour file (same cn per row); time_average:
>= 2 evenly spaced frames and 1 <= floor(period/interval) <= T-1 with period/interval not within rounding of an
integer unless all quantities are dyadic; spatial_corr: nbins = int(L_min/2/rdelta) evaluated in double precision (one
correctly rounded quotient whatever the order of the two divisions, hence crisp also at nominally integer quotients).
A particle listed as its own neighbour (accepted by the unchanged lthorder, probed) has a zero-length bond whose angle
is undefined: no value is asserted for THAT particle, all others are.
Tolerances are derived per particle from the bond lengths (see boo2ref.psi_frame); half-cell minimum-image ties and
bonds shorter than 1e-6 of the system size carry no assertion (counted in extra.ambiguous_particles).

CLAUSES (statement / quantifier -> facet : deciding assertion -> populated class tags; counts per quick run in evidence/C10.json)
  2D configuration    N 3..20 (sizes 31..133, thorough ..1025), gas / lattice / cluster, cell ortho / tri / general (axes
                      exchanged: upper triangular), any origin, all 4 masks (half of the tilted cases partial), images
                      outside, integer-dtype snapshot, 1..6 frames (deep: 16), per-frame tilt
                      -> order : compare_psi -> ortho tri general ppp00..11 tri-ppp01-wraps tri-ppp10-wraps outside-box
                      int64-snapshot sheared-per-frame-tilt size-boundary-N* wraps-none batch-all-bonds-wrap
                      bond-cartesian-short-but-wraps tilt-negative tilt-mixed-sign cfg-*
  neighbour file      random directed / k-nearest / ragged lists, entries by distance / id / reverse id / random, id text
                      7 / 7.0 / 7.000000e+00, rows in any id order, two separators, Nmax default (10) / equal / larger /
                      truncating, cn 9..11 around the default Nmax and 31..33 / 63..65, self-listed neighbour
                      -> order : compare_psi -> lists-* order-* idfmt* rows-shuffled Nmax-* cn-boundary-* default-Nmax-truncates
                      cn-varies-in-frame frame-has-cn1-and-cn>=3 self-listed-neighbour
  neighbour definitions -> libfiles -> writer-*
  weight file (incl. negative weights)   none / positive / signed with zeros / all equal (either sign) / integer text; five
                      number formats; weight rows shuffled independently; "no weights" as omitted / None / "" -> order :
                      compare_psi -> w-* wfmt* w-has-negative weighted-rows-not-id-sorted no-weights-as-*
  symmetry l 1..12    python int / numpy int / float -> all facets -> l01..l12 l-odd l-even l-as-*
  |psi| <= 1          order / lattices / libfiles on every particle (also unasserted ones)
  = 1 on a perfect l-fold lattice   lattices -> triangular square honeycomb x box-* x l-matched
  rotation covariance rotation -> phase-generic, mirror
  time average        time_average: both modes, three calls, npy + snapshot-id files, rows T - w, central ids
                      -> complex-mean-first modulus-phase-mean-first w1..w6 exact-multiple fractional-period T2-window1
  spatial correlation spatial_corr: r / gr / gA by the interval rule, csv, two calls -> bins-half bins-integer-quotient
                      floor-division-would-differ edge-ambiguous-pairs
  time correlation    time_corr: t axis, C(t), lag 0 == 1, csv, two calls -> spacing-even spacing-uneven spacing-repeated
                      spacing-back spacing-all-equal spacing-single dt-int
  histories / averaging windows   history -> same-shape other-shape first-*; time_average second-window-*; order: a second
                      boo_2d on the SAME Snapshots object after its positions were permuted in place -> snapshots-mutated-in-place
  Weak before round 3 and closed now: sizes stopped at N = 20 / cn = 12; entries inside a row were in distance or random
  order only; results were compared and discarded at once; spatial_corr / time_corr were evaluated once per object; the
  snapshot-id file of time_average was never read; integer-text weights, float-text ids, mask / l representations, integer
  snapshots, general cell matrices, self-listed neighbours, non-monotonic timesteps and integer bin quotients were never drawn.
"""
from __future__ import annotations

import os

import numpy as np
from hypothesis import strategies as st
from hypothesis.extra import numpy as hnp

from ..gen import cell_st, config_st, fl, frac_st, nice_float, ppp_st, snapshot_from
from ..harness import Facet, Violation
from ..ref import boo2ref as R
from ..ref import geom
from ..util import arr, close, col, columns, require

from PyMatterSim.reader.reader_utils import Snapshots
from PyMatterSim.static.boo import boo_2d

RULE = ("2D configurations (orthogonal / triclinic / axes-exchanged general cell, any origin, all periodicity masks with "
        "half of the tilted cases partial, particles inside or in neighbouring images; gas / lattice / cluster; N 3..20, "
        "facet sizes 31..133, thorough ..1025; integer-dtype snapshots; 1..6 frames, small-step or independent; sheared "
        "trajectories = per-frame xy tilt) x synthetic neighbour files (random directed / k-nearest / ragged k-nearest / "
        "ragged-forced; entries in distance / id / reverse-id / random order; ids as 7 / 7.0 / 7.000000e+00; rows in any id "
        "order; Nmax default / equal to max cn / larger / truncating; cn 9..11, 31..33, 63..65 in facet sizes; a particle "
        "listed as its own neighbour) x weight files (none / positive / signed with zeros / all-equal / integer text; five "
        "number formats) x l 1..12 (int / numpy int / float) x mask as array / list / tuple / float / bool. Repeated calls "
        "on one object (lthorder x3 interleaved with a second object; time_average mode A/window w, then mode not-A/window "
        "w2, then A/w again; spatial_corr and time_corr twice; facet history: every method twice in a drawn order on two "
        "objects of the same l; a second object on the same snapshots after an in-place change of the positions), every result "
        "kept alive and re-compared bit for bit. non-trivial (order, rotation, "
        "libfiles) = coordination numbers differ between particles, or weights non-uniform, or >= 2 frames; and at least "
        "one asserted particle has |psi| > 1e-3")
ASSUMPTIONS = [
    "every particle has >= 1 neighbour and sum|w| > 0; neighbour ids 1-based; weight rows have the same cn as the neighbour "
    "rows; a particle listed as its own neighbour (zero-length bond, undefined angle) carries no assertion itself",
    "minimum image = fractional rounding (contract of C02); half-cell ties and bonds shorter than 1e-6 of the system "
    "size are not asserted",
    "lists longer than Nmax are truncated to their first Nmax entries (reader contract, property C05)",
    "time_average / spatial_corr / time_corr are compared as functions of the library's own ParticlePhi, which the "
    "'order' facet ties to the definition; floor(period/interval) is generated away from integer boundaries (or exactly "
    "dyadic); the number of bins is int(Lmin/2/rdelta) evaluated in double precision",
    "spatial_corr: pairs within 1e-9 (relative) of a bin edge may fall in either adjacent bin",
    "time_corr: all timestep differences equal (also all zero / negative) = origin-averaged, otherwise the first frame is the "
    "only origin; t = (timestep - first timestep) dt (contract of property C14)",
    "arrays / DataFrames returned by any method are the caller's: later calls on any boo_2d object leave them bit-for-bit unchanged",
]

W_FORMATS = ["%.6f", "%.17g", "%g", "%.3e"]
W_NAMES = ["edgelengthlist", "weightlist", "facearealist"]
WCLASSES = ("none", "none", "none", "positive", "positive", "signed", "signed", "equal", "integer")
LIST_KINDS = ("random", "nearest", "nearest-ragged", "ragged-forced", "ragged-forced")
NCLASSES = ("default", "default", "equal", "equal", "larger", "larger", "truncating")
ORDERS = ("asis", "asis", "id", "rev-id", "random")          # order of the entries inside a neighbour row
PPP_REPRS = ("int64", "int64", "int64", "list", "tuple", "float64", "float32", "int32", "bool")
L_REPRS = ("int", "int", "int", "np.int64", "np.int32", "float")
ID_FORMATS = ("%d", "%d", "%d", "%.1f", "%.6e")
SCHEDULES = ("even", "even", "even", "uneven", "uneven", "repeated", "back", "all-equal")
PARTIAL_MASKS_2D = ((0, 1), (1, 0))
# sizes around the block sizes a "vectorised" loop typically uses (EXTENSION_3 class 1)
NS_QUICK = (31, 32, 33, 33, 63, 64, 65, 65, 99, 100, 101, 101, 127, 128, 129, 129, 129, 133)   # B + 1 weighted up
NS_THOROUGH = (170, 199, 200, 201, 255, 256, 257, 266, 341, 499, 500, 501, 511, 512, 513, 1023, 1025)
CN_BIG_QUICK = (9, 10, 11, 31, 32, 33, 63, 64, 65)
CN_BIG_THOROUGH = (99, 100, 101, 127, 128, 129)


# ============================================================================= generators


def _unit(k):
    return ((k * 2654435761) % 2 ** 32) / 2.0 ** 32


_u32 = st.integers(0, 2 ** 32 - 1)


def pick(values):
    """Evenly spread choice (Hypothesis' own integer / sampled_from draws favour the first entries; the scrambled
    index keeps the class histogram flat while still shrinking to values[0])."""
    values = list(values)
    return _u32.map(lambda k: values[min(int(_unit(k) * len(values)), len(values) - 1)])


def _timesteps(draw, T, spacing):
    """Timesteps of T frames.  even: constant positive step; uneven: multiples of a step, not all equal; repeated: one
    step is zero (the same timestep written twice); back: one step is negative; all-equal: every step is zero."""
    t0 = draw(st.sampled_from([0, 0, 1000, 123456]))
    step = draw(st.integers(1, 5000))
    if T < 2:
        return [t0], "single"
    if spacing in ("uneven", "repeated", "back") and T < 3:
        spacing = "even" if spacing == "uneven" else spacing
    if spacing == "even":
        inc = [step] * (T - 1)
    elif spacing == "all-equal":
        inc = [0] * (T - 1)
    else:
        inc = [draw(st.integers(1, 8)) * step for _ in range(T - 1)]
        if spacing == "uneven":
            if len(set(inc)) == 1:
                inc[-1] *= 2
        elif spacing == "repeated":
            inc[draw(st.integers(0, T - 2))] = 0
        else:
            inc[draw(st.integers(0, T - 2))] *= -1
    ts = np.concatenate([[t0], t0 + np.cumsum(inc)]).astype(int)
    if ts.min() < 0:
        ts = ts - ts.min()
    return [int(t) for t in ts], spacing


def _shear_cells(draw, base, T):
    """Per-frame cell matrices of a sheared trajectory: the xy tilt differs from frame to frame, lx, ly stay equal."""
    H = base["cell"]["H"]
    used = {round(float(H[1, 0] / H[0, 0]), 3)}
    Hs = [H]
    for _ in range(1, T):
        tl = draw(st.integers(-50, 50)) / 100.0
        while round(tl, 3) in used:
            tl = tl + 0.07 if tl < 0.4 else tl - 0.93
        used.add(round(tl, 3))
        Hk = H.copy()
        Hk[1, 0] = tl * H[0, 0]
        Hs.append(Hk)
    return Hs


@st.composite
def traj_st(draw, frames=(1, 5), cell_kind="any", allow_open=True, force_open=False, nmin=3, nmax=20,
            spacing="any", outside=True, origin="any", kinds=("gas", "lattice", "cluster"), Ns=None, intgrid=False,
            allow_general=True):
    shear = draw(pick([True, True, False]))          # class choice first (see case_st)
    if Ns is not None or intgrid:
        # sizes around block sizes / integer coordinates: positions from a numpy generator seeded by a drawn integer
        cell = draw(cell_st(2, cell_kind, lmin=2.0, lmax=30.0, origin=origin))
        rng = np.random.default_rng(draw(_u32))
        if intgrid:
            # hand-built integer cell (odd edges: no exact half-cell ties on the axes), integer origin, integer coordinates
            L = np.array([2 * draw(st.integers(2, 14)) + 1 for _ in range(2)])
            Hi = np.diag(L).astype(float)
            if cell["kind"] == "tri":
                Hi[1, 0] = float(draw(st.integers(-(L[0] // 2), L[0] // 2)))
            cell = dict(cell, H=Hi, lo=np.array([float(draw(st.integers(-20, 20))) for _ in range(2)]), origin="arbitrary")
            N = draw(st.integers(nmin, min(nmax, int(L[0] * L[1]) // 2)))
        else:
            N = draw(pick(Ns))
        ppp = draw(ppp_st(2, allow_open))
        base = {"d": 2, "cell": cell, "types": np.ones(N, dtype=int), "ppp": ppp, "K": 1, "kind": "gas", "outside": False,
                "rng_seeded": True}
        H, lo = cell["H"], cell["lo"]
        if intgrid:
            L = np.diag(H).astype(int)
            sites = rng.permutation(int(L[0] * L[1]))[:N]
            # Cartesian integer points; the (integer) tilt only shapes the periodic images
            base["pos"] = [lo + np.stack([sites // L[1], sites % L[1]], axis=1).astype(float)]
        else:
            f0 = rng.random((N, 2))
            offs = rng.integers(-1, 2, size=(N, 2)).astype(float) * ppp if (outside and draw(st.booleans())) else np.zeros((N, 2))
            base["outside"] = bool(np.any(offs))
            base["pos"] = [lo + (f0 + offs) @ H]
    else:
        rng = None
        base = draw(config_st(d=2, cell_kind=cell_kind, nmin=nmin, nmax=nmax, K=1, frames=(1, 1), allow_open=allow_open,
                              outside=outside, lmin=2.0, lmax=30.0, origin=origin, kinds=kinds))
    if force_open:
        base["ppp"] = np.zeros(2, dtype=int)
    elif allow_open and base["cell"]["kind"] == "tri" and draw(st.booleans()):
        # both partial masks on tilted cells are their own populated classes
        base["ppp"] = np.array(draw(pick(PARTIAL_MASKS_2D)), dtype=int)
    T = draw(pick(range(frames[0], frames[1] + 1)))
    N = len(base["types"])
    H, lo = base["cell"]["H"], base["cell"]["lo"]
    pos = [base["pos"][0]]
    motion = "single"
    if T > 1:
        motion = draw(pick(["small-steps", "small-steps", "independent"]))
    # sheared trajectory: triclinic, >= 2 frames, the xy tilt differs from frame to frame while lx, ly stay equal
    # (boo_2d only pins boxlength); frame k has its own cell dict and positions lo + f_k @ H_k
    sheared = bool(shear and T > 1 and base["cell"]["kind"] == "tri" and not intgrid)
    Hs = _shear_cells(draw, base, T) if sheared else [H] * T
    fprev = np.linalg.solve(H.T, (pos[0] - lo).T).T
    for k in range(1, T):
        if intgrid:
            L = np.diag(H).astype(int)
            sites = rng.permutation(int(L[0] * L[1]))[:N]
            pos.append(lo + np.stack([sites // L[1], sites % L[1]], axis=1).astype(float))
            continue
        if motion == "small-steps":
            amp = draw(st.sampled_from([0.01, 0.05, 0.2]))
            df = (rng.uniform(-1.0, 1.0, size=(N, 2)) if rng is not None
                  else draw(hnp.arrays(np.float64, (N, 2), elements=fl(-1.0, 1.0)))) * amp
            fprev = fprev + df
        else:
            fprev = rng.random((N, 2)) if rng is not None else draw(frac_st(N, 2))
        pos.append(lo + fprev @ Hs[k])
    if sheared:
        base["cells"] = [dict(base["cell"], H=Hk) for Hk in Hs]
    if spacing == "any":
        spacing = draw(pick(["even", "even", "uneven"]))
    elif spacing == "schedules":
        spacing = draw(pick(SCHEDULES))
    ts, spacing = _timesteps(draw, T, spacing)
    # general cell matrix (EXTENSION_2 class 10): the tilted cell with the two axes exchanged, P H P^T, is upper triangular;
    # boo_2d takes whatever snapshot.hmatrix holds.  Positions, origin and mask are permuted consistently.
    if allow_general and base["cell"]["kind"] == "tri" and draw(pick(range(5))) == 3:
        sw = [1, 0]
        cells = base.get("cells") or [base["cell"]] * T
        cells = [dict(c, H=c["H"][sw][:, sw].copy(), lo=c["lo"][sw].copy(), kind="general", origin="arbitrary") for c in cells]
        base["cell"] = cells[0]
        if sheared:
            base["cells"] = cells
        pos = [p[:, sw].copy() for p in pos]
        base["ppp"] = np.asarray(base["ppp"])[sw].copy()
    base.update(pos=pos, timesteps=ts, motion=motion, spacing=spacing, sheared=sheared, intgrid=bool(intgrid))
    return base


def cell_of(case, t):
    """Cell dict of frame t (sheared trajectories carry one per frame)."""
    return case["cells"][t] if case.get("cells") else case["cell"]


def Hs_of(case):
    return [cell_of(case, t)["H"] for t in range(len(case["pos"]))]


def _nearest_table(pos, H, ppp):
    N = len(pos)
    ii, jj, _, dist, _ = geom.pair_table(pos, H, ppp)
    D = np.full((N, N), np.inf)
    D[ii, jj] = dist
    return D


@st.composite
def lists_st(draw, traj, cmax=None, kind=None, nclass=None, order=None, cn_big=None, self_listed=False):
    """Synthetic neighbour lists (per frame, per particle, 0-based) + file layout choices."""
    N = len(traj["types"])
    T = len(traj["pos"])
    if cmax is None:
        cmax = draw(pick([3, 6, 8, 8, 12]))
    cmax = min(cmax, N - 1)
    if kind is None:
        kind = draw(pick(LIST_KINDS))
    if order is None:
        order = draw(pick(ORDERS))
    seed = draw(_u32)
    rng = np.random.default_rng(seed)
    cb = None
    if cn_big is not None:
        ok = [c for c in cn_big if c + 2 <= N - 1]
        if ok and draw(pick(range(3))) > 0:
            cb = draw(pick(ok))
    frames = []
    for t in range(T):
        D = None
        if kind == "random":
            lists = []
            for i in range(N):
                cn = int(rng.integers(1, cmax + 1))
                others = np.delete(np.arange(N), i)
                lists.append(rng.permutation(others)[:cn].astype(int))
        else:
            k = draw(st.integers(1, cmax))
            D = _nearest_table(traj["pos"][t], cell_of(traj, t)["H"], traj["ppp"])
            order_tab = np.argsort(D, axis=1, kind="stable")[:, :k]
            lists = [order_tab[i].astype(int) for i in range(N)]
            if kind in ("nearest-ragged", "ragged-forced"):
                lists = [L[: int(rng.integers(1, k + 1))] for L in lists]
            if kind == "ragged-forced" and k >= 2:
                # cn varies inside this frame by construction: one particle keeps the frame maximum k, one has a
                # single neighbour; particle 0 is one of the two (a single neighbour gives |psi_0| = 1, so a value
                # leaking through zero padding / index 0 is as visible as it can be)
                a, b = (int(v) for v in rng.permutation(N)[:2])
                if rng.integers(0, 2):
                    a, b = (0, b if b != 0 else a) if rng.integers(0, 2) else (a if a != 0 else b, 0)
                lists[a] = order_tab[a].astype(int)
                lists[b] = order_tab[b][:1].astype(int)
        if cb is not None:
            # neighbours per particle around a block size / the default Nmax: three particles carry cb-1, cb, cb+1
            if D is None:
                D = _nearest_table(traj["pos"][t], cell_of(traj, t)["H"], traj["ppp"])
            full = np.argsort(D, axis=1, kind="stable")
            for j, c_ in zip(rng.permutation(np.arange(1, N))[:3], (cb - 1, cb, cb + 1)):
                lists[int(j)] = full[int(j), :c_].astype(int)
        if order == "id":
            lists = [np.sort(L) for L in lists]
        elif order == "rev-id":
            lists = [np.sort(L)[::-1].copy() for L in lists]
        elif order == "random":
            lists = [rng.permutation(L) for L in lists]
        if self_listed:
            # the particle itself among its neighbours (zero-length bond): accepted by the unchanged lthorder; the bond
            # angle is undefined, so no value is asserted for THAT particle (boo2ref flags it), all others are
            for i in rng.permutation(N)[:2]:
                L = lists[int(i)]
                at = int(rng.integers(0, len(L) + 1))
                lists[int(i)] = np.concatenate([L[:at], [int(i)], L[at:]]).astype(int)
        frames.append(lists)
    maxcn = max(len(L) for fr in frames for L in fr)
    if nclass is None:
        nclass = draw(pick(NCLASSES))
    if nclass == "truncating" and maxcn < 2:
        nclass = "equal"
    if nclass == "default":
        Nmax = None
    elif nclass == "equal":
        Nmax = maxcn
    elif nclass == "larger":
        Nmax = maxcn + draw(st.integers(1, 5))
    else:
        Nmax = draw(st.integers(1, maxcn - 1))
    shuffled = draw(st.booleans())
    rows = [(rng.permutation(N) if shuffled else np.arange(N)).astype(int) for _ in range(T)]
    if kind == "random" and order == "asis":
        order = "random"
    elif order == "asis":
        order = "distance"
    return {"lists": frames, "lists_kind": kind, "Nmax": Nmax, "nclass": nclass, "rows": rows, "order": order,
            "sep": draw(st.sampled_from([" ", "    "])), "seed": seed, "self_listed": bool(self_listed)}


@st.composite
def weights_st(draw, lists, classes=WCLASSES, wclass=None):
    if wclass is None:
        wclass = draw(pick(classes))
    if wclass == "none":
        return {"wclass": "none", "weights": None}
    frames = lists["lists"]
    T, N = len(frames), len(frames[0])
    maxcn = max(len(L) for fr in frames for L in fr)
    big = T * N * maxcn > 3000
    rng = np.random.default_rng(lists["seed"] + 7)
    if wclass == "equal":
        c = draw(st.sampled_from([1.0, 0.25, 3.5, -2.0]))
        raw = np.full((T, N, maxcn), c)
    elif wclass == "integer":
        # integer counts written without a decimal point ("3", "-2", "0"), mixed signs
        raw = rng.integers(-4, 6, size=(T, N, maxcn)).astype(float)
    elif wclass == "positive":
        raw = rng.uniform(0.01, 10.0, size=(T, N, maxcn)) if big else \
            draw(hnp.arrays(np.float64, (T, N, maxcn), elements=st.one_of(fl(0.01, 10.0), st.sampled_from([1.0, 0.5, 2.0]))))
    else:
        raw = np.where(rng.random((T, N, maxcn)) < 0.1, 0.0, rng.uniform(-10.0, 10.0, size=(T, N, maxcn))) if big else \
            draw(hnp.arrays(np.float64, (T, N, maxcn),
                            elements=st.one_of(st.just(0.0), fl(-10.0, 10.0), st.sampled_from([-1.0, 1.0, -0.5]))))
    raw = raw.copy()
    first = raw[:, :, 0]                     # sum|w| > 0 for every particle, also after truncation and '%.6f' rounding
    raw[:, :, 0] = np.where(np.abs(first) < 0.01, np.where(first < 0, -0.5, 0.5), first)
    if wclass == "integer":
        raw[:, :, 0] = np.where(raw[:, :, 0] == 0.5, 2.0, np.where(raw[:, :, 0] == -0.5, -3.0, raw[:, :, 0]))
    weights = [[raw[t, i, : len(frames[t][i])].copy() for i in range(N)] for t in range(T)]
    rng = np.random.default_rng(lists["seed"] + 1)
    wrows = [(rng.permutation(N) if draw(st.booleans()) else np.arange(N)).astype(int) for _ in range(T)]
    return {"wclass": wclass, "weights": weights, "wfmt": "%d" if wclass == "integer" else draw(pick(W_FORMATS)),
            "wname": draw(st.sampled_from(W_NAMES)), "wrows": wrows}


@st.composite
def case_st(draw, frames=(1, 5), l_values=tuple(range(1, 13)), wclasses=WCLASSES, cn_big=None, reprs=True, self_listed=False, **kw):
    # the class-defining choices come first: Hypothesis fills the tail of many examples with minimal choices, which
    # would otherwise pile the cases up in the first class of whatever is drawn last
    l = draw(pick(l_values))
    T = draw(pick(range(frames[0], frames[1] + 1)))
    wclass = draw(pick(wclasses))
    kind = draw(pick(LIST_KINDS))
    nclass = draw(pick(NCLASSES))
    cmax = draw(pick([3, 6, 8, 8, 12]))
    order = draw(pick(ORDERS))
    ppp_repr = draw(pick(PPP_REPRS)) if reprs else "int64"
    l_repr = draw(pick(L_REPRS)) if reprs else "int"
    idfmt = draw(pick(ID_FORMATS)) if reprs else "%d"
    nowf = draw(pick(["omit", "omit", "None", "empty"])) if reprs else "omit"
    intgrid = bool(reprs and kw.get("Ns") is None and not kw.get("force_open") and kw.get("cell_kind", "any") == "any"
                   and draw(pick(range(8))) == 3)
    selfl = bool(self_listed and draw(pick(range(6))) == 3)
    traj = draw(traj_st(frames=(T, T), intgrid=intgrid, **kw))
    lists = draw(lists_st(traj, cmax=cmax, kind=kind, nclass=nclass, order=order, cn_big=cn_big, self_listed=selfl))
    w = draw(weights_st(lists, wclasses, wclass=wclass))
    case = dict(traj)
    case.update(lists)
    case.update(w)
    case.update(l=l, ppp_repr=ppp_repr, l_repr=l_repr, idfmt=idfmt, nowf=nowf)
    return case


# ============================================================================= file writer / library call


def write_listfile(path, frames, name, rows, sep, fmt):
    """The library's neighbour-file layout: one block per frame = header 'id cn <name>' + one row per particle
    'id cn v1 .. v_cn' (1-based ids), rows in the given order."""
    with open(path, "w") as f:
        for t, lists in enumerate(frames):
            f.write(sep.join(["id", "cn", name]) + "\n")
            for i in rows[t]:
                vals = lists[int(i)]
                f.write(sep.join([str(int(i) + 1), str(len(vals))] + [fmt(v) for v in vals]) + "\n")


def oracle_weights(case):
    """What the weight file actually encodes (float of the written decimal strings)."""
    if case["weights"] is None:
        return None
    fmt = case["wfmt"]
    return [[np.array([float(fmt % v) for v in w]) for w in fr] for fr in case["weights"]]


def snapshot_int(cell, pos, types, ts):
    """Hand-built snapshot whose positions / hmatrix / boxlength are int64 arrays (the values are integers)."""
    from PyMatterSim.reader.reader_utils import SingleSnapshot
    H = np.asarray(cell["H"])
    Hi, pi, loi = np.rint(H).astype(np.int64), np.rint(pos).astype(np.int64), np.rint(cell["lo"]).astype(np.int64)
    assert np.array_equal(Hi, H) and np.array_equal(pi, pos)
    L = np.diag(Hi).copy()
    return SingleSnapshot(timestep=int(ts), nparticle=len(pi), particle_type=np.array(types, dtype=int), positions=pi,
                          boxlength=L, boxbounds=np.stack([loi, loi + L], axis=1), realbounds=None, hmatrix=Hi.copy())


def make_snapshots(case, pos=None):
    # integer snapshots only for the case's own (integer) positions; shifted / rotated copies are float
    build = snapshot_int if (case.get("intgrid") and pos is None) else snapshot_from
    pos = case["pos"] if pos is None else pos
    snaps = [build(cell_of(case, t), p, case["types"], ts) for t, (p, ts) in enumerate(zip(pos, case["timesteps"]))]
    return Snapshots(nsnapshots=len(snaps), snapshots=snaps)


def write_files(case, tag=""):
    nb = os.path.join(os.getcwd(), f"nb{tag}.dat")
    idfmt = case.get("idfmt", "%d")     # neighbour entries as "7", "7.0" or "7.000000e+00" (the reader takes float(entry))
    write_listfile(nb, case["lists"], "neighborlist", case["rows"], case["sep"], lambda j: idfmt % (int(j) + 1))
    wf = ""
    if case["weights"] is not None:
        wf = os.path.join(os.getcwd(), f"w{tag}.dat")
        fmt = case["wfmt"]
        write_listfile(wf, case["weights"], case["wname"], case["wrows"], case["sep"], lambda v: fmt % v)
    return nb, wf


def ppp_as(ppp, kind):
    """The same mask in another accepted representation (probed on the unchanged tree: identical results)."""
    p = [int(x) for x in ppp]
    if kind == "list":
        return p
    if kind == "tuple":
        return tuple(p)
    if kind == "bool":
        return np.array(p, dtype=bool)
    return np.array(p, dtype={"int64": np.int64, "float64": np.float64, "float32": np.float32, "int32": np.int32}[kind])


def l_as(l, kind):
    return {"int": int, "np.int64": np.int64, "np.int32": np.int32, "float": float}[kind](l)


def run_boo(case, nb, wf, pos=None, ppp=None, **extra):
    kw = dict(l=l_as(case["l"], case.get("l_repr", "int")), neighborfile=nb,
              ppp=ppp_as(case["ppp"] if ppp is None else ppp, case.get("ppp_repr", "int64")))
    if wf:
        kw["weightsfile"] = wf
    elif case.get("nowf", "omit") != "omit":
        kw["weightsfile"] = {"None": None, "empty": ""}[case["nowf"]]   # "no weights" spelt as None (docs) or "" (signature)
    if case["Nmax"] is not None:
        kw["Nmax"] = np.int64(case["Nmax"]) if case.get("l_repr") == "np.int64" else int(case["Nmax"])
    kw.update(extra)
    return boo_2d(make_snapshots(case, pos), **kw)


def eff_nmax(case):
    return 10 if case["Nmax"] is None else int(case["Nmax"])


def phi_of(name, boo, T, N):
    a = arr(name, getattr(boo, "ParticlePhi", None), shape=(T, N))
    require(a.dtype.kind in "fc", lambda: f"{name}: dtype {a.dtype}")
    return a.astype(np.complex128)


def compare_psi(name, got, ref, tol, amb, factor=1.0):
    ok = ~amb
    bad = ok & ~(np.abs(got - ref) <= factor * tol)
    if bad.any():
        t, i = (int(v) for v in np.argwhere(bad)[0])
        raise Violation(f"{name}: {int(bad.sum())}/{int(ok.sum())} asserted values differ; first at frame {t}, particle {i}: "
                        f"got {got[t, i]!r}, reference {ref[t, i]!r} (|diff| = {abs(got[t, i] - ref[t, i]):.3e}, "
                        f"allowed {factor * tol[t, i]:.3e})")


def same_bits(name, now, then):
    """A result handed out earlier is bit-for-bit what it was when it was returned (EXTENSION_3 class 3)."""
    a, b = np.asarray(now), np.asarray(then)
    require(a.shape == b.shape and np.array_equal(a, b, equal_nan=a.dtype.kind in "fc"),
            lambda: f"{name}: a result returned earlier changed after later calls on the library")


def reference(case, pos=None, ppp=None, weights="case"):
    w = oracle_weights(case) if weights == "case" else weights
    return R.psi_traj(case["pos"] if pos is None else pos, Hs_of(case),
                      np.asarray(case["ppp"] if ppp is None else ppp), case["lists"], case["l"], w, eff_nmax(case))


def geometry_tags(case):
    """Measured classes of the bond geometry: wrapping (per particle batch), the tilted-cell critical region."""
    ppp = np.asarray(case["ppp"])
    nm = eff_nmax(case)
    wraps = allwrap = crit = False
    for t, lists in enumerate(case["lists"]):
        H = cell_of(case, t)["H"]
        L = np.diag(H)
        scale = float(np.abs(H).max())
        p = case["pos"][t]
        for i, nb in enumerate(lists):
            nb = np.asarray(nb[:nm], dtype=int)
            raw = p[nb] - p[i]
            v = geom.min_image(raw, H, ppp)[0]
            wr = np.abs(raw - v).max(axis=1) > 1e-9 * scale
            wraps = wraps or bool(wr.any())
            allwrap = allwrap or bool(len(nb) >= 2 and wr.all())
            crit = crit or bool(np.any(wr & np.all(np.abs(raw) < 0.5 * L, axis=1)))
    tags = ["wraps-some" if wraps else "wraps-none"]
    if allwrap:
        tags.append("batch-all-bonds-wrap")
    if crit:
        tags.append("bond-cartesian-short-but-wraps")
    if case["cell"]["kind"] in ("tri", "general"):
        mask = "".join(str(int(x)) for x in ppp)
        tags.append(f"tri-ppp{mask}" + ("-wraps" if wraps else ""))
        tl = [cell_of(case, t)["H"][1, 0] + cell_of(case, t)["H"][0, 1] for t in range(len(case["pos"]))]
        tags.append("tilt-mixed-sign" if min(tl) < 0 < max(tl) else ("tilt-negative" if min(tl) < 0 else "tilt-nonnegative"))
    return tags


def common_tags(case, amb=None):
    cns = [min(len(L), eff_nmax(case)) for fr in case["lists"] for L in fr]
    ppp = np.asarray(case["ppp"])
    N = len(case["types"])
    tags = [case["cell"]["kind"], "ppp" + "".join(str(int(p)) for p in ppp), f"T{len(case['pos'])}", f"l{case['l']:02d}",
            "w-" + case["wclass"], "lists-" + case["lists_kind"], "Nmax-" + case["nclass"], "cfg-" + case["kind"].split("-jit")[0],
            "rows-shuffled" if any(np.any(np.diff(r) < 0) for r in case["rows"]) else "rows-sorted",
            "N<8" if N < 8 else "N>=8", "order-" + case.get("order", "asis"), "idfmt" + case.get("idfmt", "%d"),
            "ppp-as-" + case.get("ppp_repr", "int64"), "l-as-" + case.get("l_repr", "int"), "l-odd" if case["l"] % 2 else "l-even"]
    if case.get("outside"):
        tags.append("outside-box")
    if case.get("intgrid"):
        tags.append("int64-snapshot")
    if case.get("self_listed"):
        tags.append("self-listed-neighbour")
    if case["weights"] is None:
        tags.append("no-weights-as-" + case.get("nowf", "omit"))
    if N >= 31:
        tags.append(f"size-boundary-N{N}")
    raw = sorted({len(L) for fr in case["lists"] for L in fr})
    for c in [c for c in raw if c >= 9][-3:]:
        tags.append(f"cn-boundary-{c}")
    if case["Nmax"] is None and raw[-1] > 10:
        tags.append("default-Nmax-truncates")
    if case["weights"] is not None:
        tags.append("wfmt" + case["wfmt"])
        if any(np.any(w < 0) for fr in oracle_weights(case) for w in fr):
            tags.append("w-has-negative")
        if case.get("order") in ("distance", "rev-id", "random"):
            tags.append("weighted-rows-not-id-sorted")
    if len(set(cns)) > 1:
        tags.append("cn-varies")
    per_frame = [[min(len(L), eff_nmax(case)) for L in fr] for fr in case["lists"]]
    if any(len(set(f)) > 1 for f in per_frame):
        tags.append("cn-varies-in-frame")
    if any(min(f) == 1 and max(f) >= 3 for f in per_frame):
        tags.append("frame-has-cn1-and-cn>=3")
    if min(cns) == 1:
        tags.append("has-single-neighbour-particle")
    if case.get("sheared"):
        tags.append("sheared-per-frame-tilt")
    if amb is not None and amb.any():
        tags.append("has-ambiguous")
    return tags + geometry_tags(case)


def is_nontrivial(case, ref, amb):
    cns = [min(len(L), eff_nmax(case)) for fr in case["lists"] for L in fr]
    varied = len(set(cns)) > 1 or case["wclass"] in ("positive", "signed", "integer") or len(case["pos"]) >= 2
    live = bool(np.any((np.abs(ref) > 1e-3) & ~amb))
    return bool(varied and live)


# ============================================================================= facet: order


@st.composite
def order_case(draw, **kw):
    case = draw(case_st(self_listed=True, **kw))
    N = len(case["types"])
    case["shift"] = draw(hnp.arrays(np.int64, (N, 2), elements=st.integers(-2, 2)))
    case["translate"] = draw(hnp.arrays(np.float64, (2,), elements=fl(-3.0, 3.0)))
    case["save_phi"] = draw(st.booleans())
    case["inplace"] = bool(draw(pick(range(5))) == 3)
    return case


def check_order(case):
    T, N = len(case["pos"]), len(case["types"])
    nb, wf = write_files(case)
    extra = {"output_phi": os.path.join(os.getcwd(), "phi.npy")} if case["save_phi"] else {}
    boo = run_boo(case, nb, wf, **extra)
    phi = phi_of("ParticlePhi", boo, T, N)
    ref, tol, amb = reference(case)
    compare_psi("ParticlePhi vs definition", phi, ref, tol, amb)
    require(bool(np.all(np.abs(phi) <= 1.0 + 1e-12)),
            lambda: f"|psi| exceeds one: max |psi| = {np.abs(phi).max()!r} (nan counts as a failure)")
    if case["save_phi"]:
        require(os.path.exists(extra["output_phi"]), "output_phi given but no file written")
        close("output_phi file", np.load(extra["output_phi"]), phi, rtol=0, atol=0)
    # all-equal weights are the unweighted order parameter (times the sign of the common weight)
    if case["wclass"] == "equal":
        plain = phi_of("ParticlePhi (no weights)", run_boo(case, nb, ""), T, N)
        sign = np.sign(case["weights"][0][0][0])
        compare_psi("all-equal weights vs unweighted", phi, sign * plain, tol, amb, factor=2.0)
    # periodic images of single particles / a global translation change nothing
    ppp = np.asarray(case["ppp"])
    moved = [p + (case["shift"] * ppp) @ Hk + case["translate"] for p, Hk in zip(case["pos"], Hs_of(case))]
    refm, tolm, ambm = reference(case, pos=moved)
    boo_m = run_boo(case, nb, wf, pos=moved)
    phim = phi_of("ParticlePhi (shifted images)", boo_m, T, N)
    compare_psi("invariance under lattice-vector shifts + translation", phim, phi, tol + tolm, amb | ambm)
    # state between calls: lthorder() called again on the FIRST object (as the repository's test does), after a second
    # object with other positions has been evaluated, then with another output file, and on the second object:
    # every call must return the numbers of its own object
    first_attr = boo.ParticlePhi
    raw_again = boo.lthorder()
    again = arr("lthorder() second call", raw_again, shape=(T, N)).astype(np.complex128)
    close("lthorder() second call on the first object", again, phi, rtol=0, atol=1e-14)
    phi2 = os.path.join(os.getcwd(), "phi2.npy")
    raw_third = boo.lthorder(phi2)
    third = arr("lthorder(output_phi)", raw_third, shape=(T, N)).astype(np.complex128)
    close("lthorder(output_phi) third call", third, phi, rtol=0, atol=1e-14)
    require(os.path.exists(phi2), "lthorder(output_phi): no file written")
    close("lthorder(output_phi) file", np.load(phi2), phi, rtol=0, atol=1e-14)
    close("lthorder() on the second object", arr("lthorder()", boo_m.lthorder(), shape=(T, N)).astype(np.complex128), phim, rtol=0, atol=1e-14)
    # results handed out earlier are still what they were (the constructor's array, the second and the third result)
    same_bits("ParticlePhi of the first object after later lthorder() calls", first_attr, phi)
    same_bits("lthorder() second result after later calls", raw_again, again)
    same_bits("lthorder(output_phi) third result after later calls", raw_third, third)
    tags = common_tags(case, amb) + (["psi0-clearly-nonzero"] if np.all(np.abs(ref[:, 0]) > 0.1) else [])
    if case.get("inplace") and N >= 3:
        # state carried between calls (EXTENSION_1 class 3): the SAME snapshot objects with other contents - the particles'
        # coordinates are permuted in place - then a new boo_2d on the same Snapshots object and the same files: every
        # value must be the reference for the contents at call time (no memo keyed on object identity)
        perm = np.roll(np.arange(N), 1)
        pos2 = [p[perm].copy() for p in case["pos"]]
        for snap, p2 in zip(boo.snapshots.snapshots, pos2):
            snap.positions[...] = p2.astype(snap.positions.dtype)
        ref2, tol2, amb2 = reference(case, pos=pos2)
        kw = dict(l=case["l"], neighborfile=nb, ppp=np.array(case["ppp"], dtype=int))
        if wf:
            kw["weightsfile"] = wf
        if case["Nmax"] is not None:
            kw["Nmax"] = int(case["Nmax"])
        boo2 = boo_2d(boo.snapshots, **kw)
        compare_psi("ParticlePhi of a new object on the same snapshots after an in-place change of the positions",
                    phi_of("ParticlePhi (in-place)", boo2, T, N), ref2, tol2, amb2)
        same_bits("ParticlePhi of the first object after a second object was built", first_attr, phi)
        tags.append("snapshots-mutated-in-place")
    return {"nontrivial": is_nontrivial(case, ref, amb), "tags": tags,
            "extra": {"ambiguous_particles": int(amb.sum()), "asserted_particles": int((~amb).sum())}}


# ============================================================================= facet: rotation


@st.composite
def rotation_case(draw):
    akind = draw(pick(["special", "generic", "generic"]))
    araw = draw(_u32)
    case = draw(case_st(frames=(1, 3), force_open=True, outside=False))
    l = case["l"]
    special = [np.pi / 2, np.pi, -np.pi / 2, np.pi / l, 2 * np.pi / l, np.pi / (2 * l), 1.0, -2.5]
    case["alpha"] = float(special[araw % len(special)]) if akind == "special" else 2 * np.pi * _unit(araw) - np.pi
    case["centre"] = draw(hnp.arrays(np.float64, (2,), elements=fl(-20.0, 20.0)))
    return case


def check_rotation(case):
    T, N = len(case["pos"]), len(case["types"])
    l, a = case["l"], float(case["alpha"])
    nb, wf = write_files(case)
    phi0 = phi_of("ParticlePhi", run_boo(case, nb, wf), T, N)
    ref0, tol0, amb0 = reference(case)
    compare_psi("ParticlePhi vs definition (open boundaries)", phi0, ref0, tol0, amb0)
    c = case["centre"]
    Rm = np.array([[np.cos(a), np.sin(a)], [-np.sin(a), np.cos(a)]])  # row vectors: p' = c + (p - c) Rm
    rot = [c + (p - c) @ Rm for p in case["pos"]]
    _, tol1, amb1 = reference(case, pos=rot)
    phi1 = phi_of("ParticlePhi (rotated)", run_boo(case, nb, wf, pos=rot), T, N)
    compare_psi(f"rotation by alpha = {a!r}: psi' = e^(i l alpha) psi", phi1, np.exp(1j * l * a) * phi0, tol0 + tol1, amb0 | amb1)
    mir = [p * np.array([1.0, -1.0]) for p in case["pos"]]
    phi2 = phi_of("ParticlePhi (mirrored)", run_boo(case, nb, wf, pos=mir), T, N)
    compare_psi("mirror y -> -y: psi' = conj(psi)", phi2, np.conj(phi0), 2 * tol0, amb0)
    phase = (l * a) % (2 * np.pi)
    tags = common_tags(case, amb0) + ["phase-trivial" if min(phase, 2 * np.pi - phase) < 1e-6 else "phase-generic"]
    return {"nontrivial": bool(is_nontrivial(case, ref0, amb0) and min(phase, 2 * np.pi - phase) > 1e-6), "tags": tags,
            "extra": {"ambiguous_particles": int(amb0.sum())}}


# ============================================================================= facet: lattices

FOLD = {"triangular": 6, "square": 4, "honeycomb": 3}


def _lattice_points(kind, box, n, m, a):
    """Returns (pos, H, bond length).  Points of an n x m patch / periodic cell of the given lattice, unrotated."""
    s3 = np.sqrt(3.0)
    if kind == "square":
        a1, a2, basis, bond = np.array([a, 0.0]), np.array([0.0, a]), [np.zeros(2)], a
    elif kind == "triangular":
        a1, a2, basis, bond = np.array([a, 0.0]), np.array([a / 2, a * s3 / 2]), [np.zeros(2)], a
    else:
        a1, a2 = np.array([a, 0.0]), np.array([a / 2, a * s3 / 2])
        basis, bond = [np.zeros(2), (a1 + a2) / 3.0], a / s3
    if box == "ortho" and kind != "square":
        # rectangular conventional cell (a, sqrt(3) a) holding two primitive cells
        cells = [(i, j) for i in range(n) for j in range(m)]
        rect_basis = [b for b in basis] + [b + a2 for b in basis]
        pos = np.array([np.array([i * a, j * a * s3]) + b for (i, j) in cells for b in rect_basis])
        pos[:, 0] = pos[:, 0] % (n * a)
        H = np.diag([n * a, m * a * s3])
    else:
        pos = np.array([i * a1 + j * a2 + b for i in range(n) for j in range(m) for b in basis])
        if box == "ortho":
            H = np.diag([n * a, m * a])
        elif box == "tri":
            if kind == "square":
                H = np.array([[n * a, 0.0], [a, m * a]])       # sheared by one lattice constant: still a lattice cell
            else:
                H = np.array([n * a1, m * a2])
        else:
            H = np.diag([4.0 * (n + m) * a] * 2)                # irrelevant (open boundaries), just encloses the patch
    return pos, H, bond


@st.composite
def lattice_case(draw):
    kind = draw(pick(["triangular", "square", "honeycomb"]))
    box = draw(pick(["ortho", "tri", "open"]))
    l = draw(st.one_of(pick([k for k in range(1, 13) if k % FOLD[kind] == 0]), pick(range(1, 13))))
    wclass = draw(pick(("none", "none", "positive", "signed")))
    n = draw(st.integers(3, 4))
    m = draw(st.integers(3, min(n, 4))) if box == "tri" else draw(st.integers(3 if kind == "square" or box != "ortho" else 2, 4))
    a = draw(st.one_of(st.sampled_from([1.0, 1.12, 2.0]), nice_float(0.5, 3.0)))
    pos, H, bond = _lattice_points(kind, box, n, m, a)
    N = len(pos)
    alpha = 0.0
    lo = np.zeros(2)
    ppp = np.ones(2, dtype=int)
    if box == "open":
        ppp = np.zeros(2, dtype=int)
        alpha = draw(st.one_of(st.sampled_from([0.0, np.pi / 7, np.pi / 2, 0.3]), _u32.map(lambda k: 2 * np.pi * _unit(k) - np.pi)))
        Rm = np.array([[np.cos(alpha), np.sin(alpha)], [-np.sin(alpha), np.cos(alpha)]])
        pos = pos @ Rm + draw(hnp.arrays(np.float64, (2,), elements=fl(-5.0, 5.0)))
    else:
        lo = np.array([draw(nice_float(-20.0, 20.0)) for _ in range(2)])
        off = draw(hnp.arrays(np.int64, (N, 2), elements=st.integers(-1, 1))) if draw(st.booleans()) else np.zeros((N, 2))
        pos = lo + pos + draw(hnp.arrays(np.float64, (2,), elements=fl(-1.0, 1.0))) + off @ H
    # neighbour shells by distance (harness side, reference minimum image)
    D = _nearest_table(pos, H, ppp)
    lists = [np.flatnonzero(D[i] < 1.05 * bond).astype(int) for i in range(N)]
    perm = np.random.default_rng(draw(_u32))
    lists = [perm.permutation(L) for L in lists]
    cell = {"d": 2, "kind": "tri" if box == "tri" else "ortho", "H": H, "lo": lo, "origin": "arbitrary"}
    case = {"d": 2, "cell": cell, "pos": [pos], "types": np.ones(N, dtype=int), "ppp": ppp, "K": 1,
            "kind": f"{kind}", "timesteps": [0], "outside": False, "lattice": kind, "box": box, "alpha": float(alpha),
            "lists": [lists], "lists_kind": "shell", "Nmax": None, "nclass": "default", "rows": [np.arange(N)],
            "sep": " ", "seed": 0, "bond": float(bond)}
    case.update(draw(weights_st(case, wclass=wclass)))
    case["l"] = l
    return case


def check_lattice(case):
    N = len(case["types"])
    kind, fold, l = case["lattice"], FOLD[case["lattice"]], case["l"]
    lists = case["lists"][0]
    cn = np.array([len(L) for L in lists])
    if case["box"] != "open":
        assert np.all(cn == fold), f"harness lattice construction broken: cn = {cn}"   # harness error, not a violation
    assert cn.min() >= 1
    nb, wf = write_files(case)
    phi = phi_of("ParticlePhi", run_boo(case, nb, wf), 1, N)
    ref, tol, amb = reference(case)
    assert not amb.any(), "harness lattice construction produced ambiguous bonds"
    compare_psi("ParticlePhi vs definition (lattice)", phi, ref, tol, amb)
    full = cn == fold
    w = oracle_weights(case)
    ratio = np.ones(N) if w is None else np.array([wi.sum() / np.abs(wi).sum() for wi in w[0]])
    mod = np.abs(phi[0])
    tl = np.maximum(tol[0], 1e-12)
    require(bool(np.all(mod <= 1 + 1e-12)), lambda: f"|psi| exceeds one on a lattice: {mod.max()!r}")
    if l % fold == 0:
        bad = full & ~(np.abs(mod - np.abs(ratio)) <= tl)
        require(not bad.any(), lambda: f"perfect {kind} lattice, l = {l}: |psi| must be {np.abs(ratio)[bad][0]!r} "
                                       f"(1 without signed weights) for full-shell particles, got {mod[bad][0]!r}")
        if kind != "honeycomb":
            want = np.exp(1j * l * case["alpha"]) * ratio
            bad = full & ~(np.abs(phi[0] - want) <= tl + 1e-12)
            require(not bad.any(), lambda: f"perfect {kind} lattice rotated by {case['alpha']!r}: psi_{l} must be "
                                           f"e^(i l alpha) = {want[bad][0]!r}, got {phi[0][bad][0]!r}")
    elif w is None:
        bad = full & ~(mod <= tl)
        require(not bad.any(), lambda: f"perfect {kind} lattice, l = {l} (not a multiple of {fold}): psi must vanish, got {mod[bad][0]!r}")
    tags = [kind, "box-" + case["box"], f"l{l:02d}", "l-matched" if l % fold == 0 else "l-unmatched", "w-" + case["wclass"],
            "full-shells-only" if full.all() else "has-edge-particles"]
    return {"nontrivial": bool(full.any() and (l % fold == 0 or w is None)), "tags": tags,
            "extra": {"full_shell_particles": int(full.sum())}}


# ============================================================================= facets: derived quantities


@st.composite
def tavg_case(draw, tmax=7, **kw):
    T = draw(pick(range(2, tmax + 1)))
    w = draw(pick(range(1, T)))
    w2 = draw(pick(range(1, T)))
    dyadic = draw(pick([True, False]))
    mode = draw(pick([True, False]))
    case = draw(case_st(frames=(T, T), spacing="even", **dict(dict(nmax=12), **kw)))
    if dyadic:
        dt = 2.0 ** -draw(st.integers(4, 12))
        frac = draw(st.one_of(st.just(0.0), st.just(0.0), st.sampled_from([0.25, 0.5, 0.75])))
    else:
        dt = draw(st.sampled_from([0.002, 0.005, 0.001, 0.01, 1.0]))
        frac = draw(st.integers(5, 95)) / 100.0
    interval = (case["timesteps"][1] - case["timesteps"][0]) * dt
    case.update(dt=dt, w=w, w2=w2, frac=frac, period=(w + frac) * interval, dyadic=dyadic,
                average_complex=mode, save=draw(st.booleans()))
    return case


def check_tavg(case):
    T, N = len(case["pos"]), len(case["types"])
    nb, wf = write_files(case)
    boo = run_boo(case, nb, wf)
    phi = phi_of("ParticlePhi", boo, T, N)
    interval = (case["timesteps"][1] - case["timesteps"][0]) * case["dt"]

    held = []

    def one_call(tag, w, mode, save):
        period = (w + case["frac"]) * interval
        q = period / interval
        assert int(np.floor(q + 1e-9)) == w and int(np.floor(q - 1e-9)) == w or case["frac"] == 0.0 and q == w, "harness: window ambiguous"
        kw = dict(time_period=period, dt=case["dt"], average_complex=mode)
        out = os.path.join(os.getcwd(), f"tavg{tag}.npy")
        if save:
            kw["outputfile"] = out
        res = boo.time_average(**kw)
        name = f"time_average[{tag} call: window {w}, average_complex={mode}]"
        require(isinstance(res, tuple) and len(res) == 2, lambda: f"{name} must return (values, middle ids), got {type(res).__name__}")
        vals = arr(f"{name} values", res[0], shape=(T - w, N)).astype(np.complex128)
        ids = arr(f"{name} middle ids", res[1], shape=(T - w,))
        if mode:
            want = R.window_average(phi, w)
        else:
            want = R.window_average(np.abs(phi), w) * np.exp(1j * R.window_average(np.angle(phi), w))
        close(f"{name} values", vals, want, rtol=1e-12, atol=1e-13)
        # reported index: a central frame of the window n .. n+w-1, advancing by one per row
        n = np.arange(T - w)
        require(bool(np.all(np.abs(ids - (n + (w - 1) / 2.0)) <= 0.5)) and bool(np.all(ids == np.round(ids))),
                lambda: f"{name}: middle snapshot ids {ids.tolist()} are not central frames of the windows "
                        f"[n, n+{w - 1}] for n = 0..{T - w - 1}")
        require(bool(np.all(np.diff(ids) == 1)), lambda: f"{name}: middle snapshot ids {ids.tolist()} do not advance by one per window")
        if save:
            require(os.path.exists(out), f"{name}: outputfile given but not written")
            close(f"{name} saved array", np.load(out), vals, rtol=0, atol=0)
            idf = out + ".snapshot_id.dat"
            require(os.path.exists(idf), f"{name}: {os.path.basename(idf)} not written")
            with open(idf) as fh:
                head = fh.readline().strip()
            require(head == "middle_snapshot_id", lambda: f"{name}: header of the snapshot-id file is {head!r}")
            close(f"{name} snapshot-id file", np.loadtxt(idf, skiprows=1, ndmin=1), ids, rtol=0, atol=0)
        for hname, now, then in held:          # after EVERY call: what was handed out before is unchanged
            same_bits(hname + f" (after the {tag} call)", now, then)
        held.append((f"{name} values", res[0], np.array(res[0], copy=True)))
        held.append((f"{name} middle ids", res[1], np.array(res[1], copy=True)))
        # ParticlePhi itself must not be modified by the call
        close(f"ParticlePhi after {name}", boo.ParticlePhi, phi, rtol=0, atol=0)

    w, w2, mode = case["w"], case["w2"], case["average_complex"]
    one_call("first", w, mode, case["save"])
    # same object, other arguments (state carried between calls must not leak): the other averaging mode with another
    # window, then the first arguments once more
    one_call("second", w2, not mode, False)
    one_call("third", w, mode, False)
    for name, now, then in held:
        same_bits(name, now, then)
    tags = common_tags(case) + [f"w{w}", "exact-multiple" if case["frac"] == 0 else "fractional-period",
                                "complex-mean-first" if mode else "modulus-phase-mean-first",
                                "dt-dyadic" if case["dyadic"] else "dt-decimal", "w-even" if w % 2 == 0 else "w-odd",
                                "second-window-differs" if w2 != w else "second-window-same"]
    if T == 2:
        tags.append("T2-window1")
    return {"nontrivial": bool(max(w, w2) >= 2 and T - min(w, w2) >= 2 and np.abs(phi).max() > 1e-3), "tags": tags}


@st.composite
def scorr_case(draw, frames=(1, 3), **kw):
    nb = draw(pick(range(2, 31)))
    bincls = draw(pick(["half", "half", "integer-quotient"]))
    case = draw(case_st(frames=frames, **dict(dict(nmax=14, outside=draw(st.booleans())), **kw)))
    Lmin = float(np.diag(case["cell"]["H"]).min())
    # nbins = int(Lmin / 2 / rdelta), the documented formula: one correctly rounded quotient whatever the order of the two
    # divisions (halving / doubling are exact), so it is crisp also where the quotient is nominally an integer.
    # half: quotient nb + 1/2; integer-quotient: rdelta = fl(Lmin / (2 nb)), e.g. L = 10, rdelta = 0.1 -> 50 bins
    # (floor division of the doubles would give 49)
    rdelta = Lmin / 2.0 / (nb + 0.5) if bincls == "half" else Lmin / (2.0 * nb)
    case.update(nbins=int(Lmin / 2.0 / rdelta), rdelta=rdelta, bincls=bincls, save=draw(st.booleans()))
    return case


def _compare_scorr(case, name, df, acc, phi, nbins, T):
    columns(name, df, ["r", "gr", "gA"])
    r, gr, gA = (arr(f"{name}[{c}]", col(name, df, c), shape=(nbins,)) for c in ("r", "gr", "gA"))
    tie_tri = case["cell"]["kind"] in ("tri", "general") and any(a[6] for a in acc)
    r_ref = acc[0][0]
    lo = sum(a[1] for a in acc) / T
    hi = sum(a[2] for a in acc) / T
    gA_ref = sum(a[3] for a in acc) / T
    slack = sum(a[4] for a in acc) / T
    close(f"{name} r", r, r_ref, rtol=1e-9, atol=1e-12)
    if not tie_tri:
        tol = 1e-9 * (1 + np.abs(hi))
        bad = ~((gr >= lo - tol) & (gr <= hi + tol))
        require(not bad.any(), lambda: f"{name} gr: bin {int(np.flatnonzero(bad)[0])}: got {gr[bad][0]!r}, "
                                       f"reference interval [{lo[bad][0]!r}, {hi[bad][0]!r}]")
        scale = np.abs(phi).max() ** 2
        tolA = slack + 1e-9 * (np.abs(gA_ref) + scale * hi) + 1e-12
        bad = ~(np.abs(gA - gA_ref) <= tolA)
        require(not bad.any(), lambda: f"{name} gA: bin {int(np.flatnonzero(bad)[0])}: got {gA[bad][0]!r}, reference "
                                       f"{gA_ref[bad][0]!r} +- {tolA[bad][0]:.3e} (weight Re(A_i conj A_j), frame average)")


def check_scorr(case):
    T, N = len(case["pos"]), len(case["types"])
    nb, wf = write_files(case)
    boo = run_boo(case, nb, wf)
    phi = phi_of("ParticlePhi", boo, T, N)
    nbins, rdelta = case["nbins"], case["rdelta"]
    L = np.diag(case["cell"]["H"]).copy()
    assert int(L.min() / 2.0 / rdelta) == nbins
    out = os.path.join(os.getcwd(), "gl.csv")
    acc = [R.conditional_gr_complex(p, cell_of(case, t)["H"], L, case["ppp"], phi[t], rdelta, nbins) for t, p in enumerate(case["pos"])]
    df = boo.spatial_corr(rdelta=rdelta, outputfile=out) if case["save"] else boo.spatial_corr(rdelta=rdelta)
    _compare_scorr(case, "spatial_corr", df, acc, phi, nbins, T)
    # second evaluation on the same object (after a time_corr call): same oracle; the first DataFrame is unchanged
    kept = df.values.copy()
    boo.time_corr(dt=0.002)
    _compare_scorr(case, "spatial_corr, second call", boo.spatial_corr(rdelta=rdelta), acc, phi, nbins, T)
    same_bits("spatial_corr DataFrame after later calls", df.values, kept)
    close("ParticlePhi after spatial_corr / time_corr", boo.ParticlePhi, phi, rtol=0, atol=0)
    r, gr, gA = (col("spatial_corr", df, c) for c in ("r", "gr", "gA"))
    tie_tri = case["cell"]["kind"] in ("tri", "general") and any(a[6] for a in acc)
    hi = sum(a[2] for a in acc) / T
    gA_ref = sum(a[3] for a in acc) / T
    namb = sum(a[5] for a in acc)
    if case["save"]:
        import pandas as pd
        require(os.path.exists(out), "spatial_corr: outputfile given but not written")
        f = pd.read_csv(out)
        columns("spatial_corr csv", f, ["r", "gr", "gA"])
        for c, v in (("r", r), ("gr", gr), ("gA", gA)):
            close(f"spatial_corr csv[{c}]", f[c].values, v, rtol=0, atol=5.1e-9)
    filled = int(np.sum(hi > 0))
    tags = common_tags(case) + ["edge-ambiguous-pairs" if namb else "no-edge-pairs", "bins<=8" if nbins <= 8 else "bins>8",
                                "bins-" + case.get("bincls", "half")]
    if int(L.min() // (2.0 * rdelta)) != nbins:
        tags.append("floor-division-would-differ")
    if np.all(np.abs(phi[:, 0]) > 0.1):
        tags.append("psi0-clearly-nonzero")
    if tie_tri:
        tags.append("skipped-tri-tie")
    return {"nontrivial": bool(filled >= 2 and np.abs(gA_ref).max() > 1e-6 and not tie_tri), "tags": tags,
            "extra": {"edge_ambiguous_pairs": int(namb)}}


@st.composite
def tcorr_case(draw, frames=(1, 6), **kw):
    case = draw(case_st(frames=frames, spacing="schedules", **dict(dict(nmax=12), **kw)))
    case.update(dt=draw(st.sampled_from([0.002, 0.005, 1.0, 2.0 ** -7, 1])), save=draw(st.booleans()))
    return case


def check_tcorr(case):
    T, N = len(case["pos"]), len(case["types"])
    nb, wf = write_files(case)
    boo = run_boo(case, nb, wf)
    phi = phi_of("ParticlePhi", boo, T, N)
    out = os.path.join(os.getcwd(), "glt.csv")
    df = boo.time_corr(dt=case["dt"], outputfile=out) if case["save"] else boo.time_corr(dt=case["dt"])
    columns("time_corr", df, ["t", "time_corr"])
    t = arr("time_corr[t]", col("time_corr", df, "t"), shape=(T,))
    C = arr("time_corr[time_corr]", col("time_corr", df, "time_corr"), shape=(T,))
    t_ref, C_ref, c0 = R.time_correlation(phi, case["timesteps"], case["dt"])
    close("time_corr t", t, t_ref, rtol=1e-12, atol=1e-12)
    live = c0 > 1e-6 * N     # psi identically ~0 (e.g. symmetric shells at a mismatched l): 0/0, nothing is promised
    if live:
        close("time_corr", C, C_ref, rtol=1e-9, atol=1e-10)
        require(C[0] == 1.0, lambda: f"time_corr at lag zero must be exactly one, got {C[0]!r}")
        if case["save"]:
            import pandas as pd
            require(os.path.exists(out), "time_corr: outputfile given but not written")
            f = pd.read_csv(out)
            columns("time_corr csv", f, ["t", "time_corr"])
            close("time_corr csv", f["time_corr"].values, C, rtol=0, atol=5.1e-9)
    # second evaluation on the same object (after a spatial_corr call): same oracle; the first DataFrame is unchanged
    kept = df.values.copy()
    boo.spatial_corr(rdelta=float(np.diag(case["cell"]["H"]).min()) / 5.0)
    df2 = boo.time_corr(dt=case["dt"])
    columns("time_corr, second call", df2, ["t", "time_corr"])
    if live:
        close("time_corr, second call", arr("time_corr, second call", col("time_corr", df2, "time_corr"), shape=(T,)), C_ref, rtol=1e-9, atol=1e-10)
    same_bits("time_corr DataFrame after later calls", df.values, kept)
    close("ParticlePhi after time_corr / spatial_corr", boo.ParticlePhi, phi, rtol=0, atol=0)
    tags = common_tags(case) + ["spacing-" + case["spacing"], "motion-" + case["motion"], "live" if live else "psi-all-zero",
                                "dt-int" if isinstance(case["dt"], int) else "dt-float"]
    return {"nontrivial": bool(live and T >= 3), "tags": tags}


# ============================================================================= facet: files written by the library


@st.composite
def libfiles_case(draw):
    writer = draw(pick(["Nnearests", "cutoff", "voronoi", "voronoi"]))
    if writer == "voronoi":
        traj = draw(traj_st(frames=(1, 3), cell_kind="ortho", allow_open=False, nmin=9, nmax=20, outside=False,
                            origin=draw(st.sampled_from(["zero", "arbitrary", "centred"])), kinds=("gas", "cluster")))
    else:
        traj = draw(traj_st(frames=(1, 3), nmin=4, nmax=16, allow_general=False))
    case = dict(traj)
    if writer == "voronoi":
        # the tessellation needs distinct points inside the box (coincident points make voro++ spin): jittered grid,
        # separation >= 0.3/m in fractional coordinates by construction
        H, lo = case["cell"]["H"], case["cell"]["lo"]
        N0 = len(case["types"])
        m = int(np.ceil(np.sqrt(N0)))
        sites = np.array(draw(st.permutations(range(m * m))))[:N0]
        grid = np.stack([sites // m, sites % m], axis=1).astype(float)
        case["pos"] = [lo + (((grid + 0.5 + 0.35 * draw(hnp.arrays(np.float64, (N0, 2), elements=fl(-1.0, 1.0)))) / m) % 1.0) @ H
                       for _ in case["pos"]]
        case["kind"] = "jittered-grid"
    N = len(case["types"])
    case.update(writer=writer, l=draw(pick(range(1, 13))), k=draw(pick(range(1, min(N - 1, 8) + 1))),
                rfac=draw(st.sampled_from([1.0, 1.05, 1.3, 1.7])), use_weights=draw(pick([True, True, False])),
                Nmax=draw(st.sampled_from([None, 12, 30])))
    return case


def check_libfiles(case):
    from PyMatterSim.neighbors.calculate_neighbors import Nnearests, cutoffneighbors

    T, N = len(case["pos"]), len(case["types"])
    snaps = make_snapshots(case)
    ppp = np.array(case["ppp"], dtype=int)
    H = case["cell"]["H"]
    wf = ""
    if case["writer"] == "Nnearests":
        nbf = os.path.join(os.getcwd(), "nn.dat")
        Nnearests(snaps, N=int(case["k"]), ppp=ppp, fnfile=nbf)
    elif case["writer"] == "cutoff":
        # a cut-off that gives every particle at least one neighbour: above the largest nearest-neighbour distance
        dmax = max(_nearest_table(p, Hk, ppp).min(axis=1).max() for p, Hk in zip(case["pos"], Hs_of(case)))
        nbf = os.path.join(os.getcwd(), "rc.dat")
        cutoffneighbors(snaps, r_cut=float(dmax * case["rfac"] * (1 + 1e-6)), ppp=ppp, fnfile=nbf)
    else:
        from PyMatterSim.neighbors.freud_neighbors import cal_neighbors
        cal_neighbors(snaps, outputfile=os.path.join(os.getcwd(), "vor"))
        nbf = os.path.join(os.getcwd(), "vor.neighbor.dat")
        if case["use_weights"]:
            wf = os.path.join(os.getcwd(), "vor.edgelength.dat")
    lists = R.parse_list_blocks(open(nbf).read(), N, T, as_float=False)
    weights = R.parse_list_blocks(open(wf).read(), N, T, as_float=True) if wf else None
    cn = np.array([len(L) for fr in lists for L in fr])
    if cn.min() < 1 or (weights is not None and any(np.abs(w).sum() == 0 for fr in weights for w in fr)):
        return {"nontrivial": False, "tags": ["writer-" + case["writer"], "skipped-empty-shell"]}
    nmax = 10 if case["Nmax"] is None else case["Nmax"]
    kw = dict(l=case["l"], neighborfile=nbf, ppp=ppp)
    if wf:
        kw["weightsfile"] = wf
    if case["Nmax"] is not None:
        kw["Nmax"] = case["Nmax"]
    boo = boo_2d(make_snapshots(case), **kw)
    phi = phi_of("ParticlePhi", boo, T, N)
    ref, tol, amb = R.psi_traj(case["pos"], Hs_of(case), ppp, lists, case["l"], weights, nmax)
    compare_psi(f"ParticlePhi vs definition (files from {case['writer']})", phi, ref, tol, amb)
    require(bool(np.all(np.abs(phi) <= 1.0 + 1e-12)), lambda: f"|psi| exceeds one: {np.abs(phi).max()!r}")
    tags = ["writer-" + case["writer"], case["cell"]["kind"], "ppp" + "".join(str(int(p)) for p in ppp), f"T{T}",
            "weights-edgelength" if wf else "unweighted", "cn-varies" if len(set(cn.tolist())) > 1 else "cn-uniform",
            "truncated" if cn.max() > nmax else "not-truncated"] + (["sheared-per-frame-tilt"] if case.get("sheared") else [])
    live = bool(np.any((np.abs(ref) > 1e-3) & ~amb))
    return {"nontrivial": bool(live and (len(set(cn.tolist())) > 1 or wf or T >= 2)), "tags": tags,
            "extra": {"ambiguous_particles": int(amb.sum())}}


# ============================================================================= facet: call histories, results kept alive

METHODS = ("lthorder", "tavg-complex", "tavg-modphase", "spatial", "time")


@st.composite
def history_case(draw):
    """Object A (every method named by the statement twice) and object B (SAME l, other data; in half of the cases the
    same (frames, N), so that a buffer keyed on degree / shape would be shared) used alternately in a drawn order."""
    T = draw(pick(range(2, 6)))
    kw = dict(spacing="even", nmax=12, reprs=False)
    A = draw(case_st(frames=(T, T), **kw))
    same_shape = draw(pick([True, False]))
    N = len(A["types"])
    if same_shape:
        B = draw(case_st(frames=(T, T), l_values=(A["l"],), nmin=N, **dict(kw, nmax=N)))
        same_shape = len(B["types"]) == N          # lattice configurations have their own sizes
    else:
        B = draw(case_st(frames=(2, 5), l_values=(A["l"],), **kw))
    ops = [("A", m) for m in METHODS] * 2 + [("B", m) for m in METHODS]
    order = draw(st.permutations(range(len(ops))))
    wins = draw(st.lists(st.integers(1, 4), min_size=len(ops), max_size=len(ops)))
    dt = draw(st.sampled_from([0.002, 2.0 ** -7, 1.0]))
    case = dict(A)
    case.update(A=A, B=B, ops=[(ops[i][0], ops[i][1], int(wins[i])) for i in order], same_shape=bool(same_shape), dt=dt)
    return case


def check_history(case):
    """Every method of boo_2d named by the statement (lthorder, time_average in both modes, spatial_corr, time_corr) is
    called twice on object A in a drawn order, interleaved with calls on a second object B of the same l built from
    other data.  Each answer must be the reference for the object and arguments of THAT call; at the end every array /
    DataFrame handed out earlier, and both ParticlePhi attributes, are bit-for-bit what they were when returned."""
    objs = {}
    for key in ("A", "B"):
        c = case[key]
        T, N = len(c["pos"]), len(c["types"])
        nb, wf = write_files(c, tag=key)
        boo = run_boo(c, nb, wf)
        phi = phi_of(f"{key}.ParticlePhi", boo, T, N)
        ref, tol, amb = reference(c)
        compare_psi(f"{key}.ParticlePhi vs definition", phi, ref, tol, amb)
        L = np.diag(c["cell"]["H"]).copy()
        nbins = 6
        rdelta = float(L.min()) / 2.0 / (nbins + 0.5)
        objs[key] = dict(case=c, boo=boo, phi=phi, T=T, N=N, L=L, nbins=nbins, rdelta=rdelta, acc=None,
                         interval=(c["timesteps"][1] - c["timesteps"][0]) * case["dt"])
    held = [(f"{k}.ParticlePhi", o["boo"].ParticlePhi, o["phi"].copy()) for k, o in objs.items()]
    for step, (key, meth, win) in enumerate(case["ops"]):
        o = objs[key]
        c, boo, phi, T, N = o["case"], o["boo"], o["phi"], o["T"], o["N"]
        nm = f"step {step}: {key}.{meth}"
        try:
            if meth == "lthorder":
                got = boo.lthorder()
                close(nm, arr(nm, got, shape=(T, N)).astype(np.complex128), phi, rtol=0, atol=1e-14)
                held.append((nm, got, np.array(got, copy=True)))
            elif meth.startswith("tavg"):
                w = min(win, T - 1)
                mode = meth == "tavg-complex"
                res = boo.time_average(time_period=(w + 0.5) * o["interval"], dt=case["dt"], average_complex=mode)
                require(isinstance(res, tuple) and len(res) == 2, f"{nm}: must return (values, middle ids)")
                vals = arr(f"{nm} values", res[0], shape=(T - w, N)).astype(np.complex128)
                want = R.window_average(phi, w) if mode else \
                    R.window_average(np.abs(phi), w) * np.exp(1j * R.window_average(np.angle(phi), w))
                close(f"{nm} (window {w})", vals, want, rtol=1e-12, atol=1e-13)
                ids = arr(f"{nm} middle ids", res[1], shape=(T - w,))
                require(bool(np.all(np.abs(ids - (np.arange(T - w) + (w - 1) / 2.0)) <= 0.5)), f"{nm}: middle ids {ids.tolist()}")
                held.append((nm + " values", res[0], np.array(res[0], copy=True)))
                held.append((nm + " ids", res[1], np.array(res[1], copy=True)))
            elif meth == "spatial":
                if o["acc"] is None:
                    o["acc"] = [R.conditional_gr_complex(p, cell_of(c, t)["H"], o["L"], c["ppp"], phi[t], o["rdelta"], o["nbins"])
                                for t, p in enumerate(c["pos"])]
                df = boo.spatial_corr(rdelta=o["rdelta"])
                _compare_scorr(c, nm, df, o["acc"], phi, o["nbins"], T)
                held.append((nm, df, df.values.copy()))
            else:
                df = boo.time_corr(dt=case["dt"])
                columns(nm, df, ["t", "time_corr"])
                t_ref, C_ref, c0 = R.time_correlation(phi, c["timesteps"], case["dt"])
                close(f"{nm} t", arr(nm, col(nm, df, "t"), shape=(T,)), t_ref, rtol=1e-12, atol=1e-12)
                if c0 > 1e-6 * N:
                    close(nm, arr(nm, col(nm, df, "time_corr"), shape=(T,)), C_ref, rtol=1e-9, atol=1e-10)
                held.append((nm, df, df.values.copy()))
        except Violation as v:
            raise Violation(f"{nm}: {v}") from None
        for name, now, then in held:       # after EVERY step: what was handed out before is unchanged
            same_bits(f"{name} (checked after {nm})", now.values if hasattr(now, "columns") else now, then)
    A = case["A"]
    tags = [f"l{A['l']:02d}", "same-shape" if case["same_shape"] else "other-shape", "first-" + case["ops"][0][0] + "." + case["ops"][0][1],
            "w-" + A["wclass"], A["cell"]["kind"], f"T{len(A['pos'])}"]
    live = bool(np.abs(objs["A"]["phi"]).max() > 1e-3)
    return {"nontrivial": live, "tags": tags, "extra": {"results_kept_alive": len(held)}}


# ============================================================================= facet: size boundaries / deep tier


@st.composite
def sized_case(draw, Ns, cn_big, frames=(1, 2), **kw):
    """Sizes around typical block sizes (particles; neighbours per particle around the default Nmax = 10 and around
    32 / 64), dispatched over the four groups of quantities."""
    # the size is the FIRST choice of the case (Hypothesis varies the head of an example most): flat size histogram
    if Ns is not None:
        Ns = (draw(pick(Ns)),)
    what = draw(pick(["order", "order", "scorr", "tcorr", "tavg"]))
    common = dict(Ns=Ns, cn_big=cn_big, **kw)
    if what == "order":
        case = draw(order_case(frames=frames, **common))
    elif what == "scorr":
        case = draw(scorr_case(frames=(min(frames[0], 4), min(frames[1], 8)), **common))
    elif what == "tcorr":
        case = draw(tcorr_case(frames=(max(frames[0], 2), max(frames[1], 3)), **common))
    else:
        case = draw(tavg_case(tmax=max(4, frames[1]), **common))
    case["what"] = what
    return case


def check_sized(case):
    out = {"order": check_order, "scorr": check_scorr, "tcorr": check_tcorr, "tavg": check_tavg}[case["what"]](case)
    out["tags"] = list(out["tags"]) + ["what-" + case["what"]]
    return out


# ============================================================================= registry


def describe(case):
    d = {"cell": case["cell"]["kind"], "H": np.round(case["cell"]["H"], 4).tolist(), "ppp": np.asarray(case["ppp"]).tolist(),
         "N": int(len(case["types"])), "T": len(case["pos"]), "l": int(case["l"]), "cfg": case.get("kind"),
         "timesteps": list(case["timesteps"])}
    for k in ("lists_kind", "Nmax", "wclass", "wfmt", "alpha", "lattice", "box", "w", "period", "dt", "average_complex",
              "rdelta", "nbins", "writer", "spacing", "order", "what", "ops", "ppp_repr", "l_repr", "idfmt"):
        if k in case:
            v = case[k]
            d[k] = float(v) if isinstance(v, (float, np.floating)) else v
    if "lists" in case:
        d["lists0"] = [np.asarray(L).tolist() for L in case["lists"][0][:3]]
    d["pos0"] = np.round(case["pos"][0][:3], 4).tolist()
    return d


FACETS = [
    Facet("order", order_case(), check_order, quick=800, thorough=40000, describe=describe, shards_quick=4,
          rule="ParticlePhi / lthorder vs the definition, |psi| <= 1, equal weights == unweighted, image-shift and "
               "translation invariance, lthorder three times on one object with the earlier results unchanged; non-trivial as in RULE"),
    Facet("rotation", rotation_case(), check_rotation, quick=400, thorough=20000, describe=describe, shards_quick=2,
          rule="open boundaries: rotation by alpha multiplies psi by e^{i l alpha}, mirror conjugates; non-trivial = RULE "
               "and l*alpha not a multiple of 2 pi"),
    Facet("lattices", lattice_case(), check_lattice, quick=400, thorough=20000, describe=describe, shards_quick=2,
          rule="perfect triangular / square / honeycomb lattices in periodic orthogonal, periodic triclinic and open "
               "rotated settings: |psi_l| = 1 and psi_l = e^{i l alpha} for matching l, 0 otherwise; non-trivial = some "
               "particle has a full shell and a closed-form value is asserted"),
    Facet("time_average", tavg_case(), check_tavg, quick=400, thorough=20000, describe=describe, shards_quick=2,
          rule="time_average (complex mean / modulus-phase mean) vs window mean of ParticlePhi, T - w rows, central-frame "
               "indices, npy and snapshot-id files, three calls with the earlier results unchanged; non-trivial = window >= 2 frames and >= 2 rows"),
    Facet("spatial_corr", scorr_case(), check_scorr, quick=300, thorough=12000, describe=describe, shards_quick=2,
          rule="spatial_corr vs frame-averaged pair histogram weighted by Re(psi_i conj psi_j) with the documented "
               "normalisation (interval rule at bin edges; bins int(Lmin/2/rdelta) with half-integer and nominally integer "
               "quotients), twice on one object; non-trivial = >= 2 populated bins and non-zero gA"),
    Facet("time_corr", tcorr_case(), check_tcorr, quick=400, thorough=20000, describe=describe, shards_quick=2,
          rule="time_corr vs origin-averaged (all steps equal) / single-origin (otherwise: uneven, repeated, backward) normalised "
               "autocorrelation of ParticlePhi, time axis (ts - ts0) dt, lag zero exactly one, twice on one object; "
               "non-trivial = >= 3 frames and psi not ~0"),
    Facet("history", history_case(), check_history, quick=200, thorough=6000, describe=describe, shards_quick=3,
          rule="lthorder, time_average (both modes), spatial_corr, time_corr twice each on one object in a drawn order, "
               "interleaved with a second object of the same l (other data, in half of the cases the same shape): each answer "
               "is the reference of its own call, all results handed out earlier are bit-for-bit unchanged at the end"),
    Facet("sizes", sized_case(NS_QUICK, CN_BIG_QUICK, frames=(1, 3)), check_sized, quick=200, thorough=4000, describe=describe, shards_quick=8,
          rule="N in {31..33, 63..65, 99..101, 127..129, 133} and 9..11 / 31..33 / 63..65 neighbours per particle (default "
               "Nmax = 10 truncating or not), all four groups of quantities"),
    Facet("sizes_large", sized_case(NS_THOROUGH, CN_BIG_QUICK + CN_BIG_THOROUGH), check_sized, quick=0, thorough=640, describe=describe,
          rule="thorough tier only: N in {170, 199..201, 255..257, 266, 341, 499..501, 511..513, 1023, 1025}, up to 129 neighbours"),
    Facet("deep", sized_case(None, None, frames=(6, 16), nmax=60), check_sized, quick=0, thorough=4000, describe=describe,
          rule="thorough tier only: up to 16 frames (windows up to 15), N up to 60"),
    Facet("libfiles", libfiles_case(), check_libfiles, quick=200, thorough=8000, describe=describe, shards_quick=2,
          rule="neighbour / weight files produced by Nnearests, cutoffneighbors and the freud Voronoi writer (edge "
               "lengths as weights) are consumed consistently; oracle parses the files independently"),
]

MANIFEST = {
    "text": ("boo_2d.ParticlePhi equals mean_j e^{i l theta_ij} (or sum_j w_j e^{i l theta_ij} / sum_j |w_j| with a weight "
             "file, incl. negative and zero weights) over minimum-image bonds for generated 2D trajectories (orthogonal / "
             "triclinic / general cells, all masks, 1..6 frames, l 1..12, synthetic neighbour and weight files in the library "
             "format with shuffled rows, entries in distance / id / random order and all Nmax regimes; sizes around block "
             "boundaries N 31..133 and 9..65 neighbours, thorough tier N ..1025 and 16 frames); |psi| <= 1; exactly 1 (and "
             "e^{i l alpha}) on perfect triangular, square and honeycomb lattices; rotation by alpha multiplies every value by "
             "e^{i l alpha}, mirror conjugates; time_average (both modes, with its files), spatial_corr and time_corr equal the "
             "window mean, the conditional g(r) with weight Re(psi_i conj psi_j) and the normalised autocorrelation of those "
             "complex numbers, also when every method is called twice in any order on two objects of the same l, with every "
             "earlier result kept alive and unchanged. Facets: order, rotation, lattices, time_average, spatial_corr, "
             "time_corr, history, sizes, sizes_large, deep, libfiles."),
    "note": ("Exploration (sampled). Derived quantities are checked as functions of the library's "
             "own ParticlePhi. Minimum image = fractional rounding (C02); ties / near-zero bonds (incl. self-listed "
             "neighbours) not asserted. The Voronoi geometry of freud is trusted (only the hand-off through the files is "
             "checked). Trusted base: pbt/ref/boo2ref.py, pbt/ref/geom.py."),
    "technique": ("property-based testing (Hypothesis): reference-model differential (independent psi_l, window mean, "
                  "conditional g(r), time correlation) + metamorphic relations (rotation covariance e^{i l alpha}, mirror "
                  "conjugation, periodic-image and translation invariance) + closed-form lattice values + call histories "
                  "with results kept alive"),
}
