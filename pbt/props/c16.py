"""C16 — coarse graining: neighbour (spatial) average, Gaussian blurring on a grid, window (time) average.

Oracles are direct re-computations from the property statement / docs/utils.md VII (pbt/ref/cgref.py):
  spatial_average  : mean over the particle itself and its listed neighbours, frame by frame, from a synthetic
                     multi-frame neighbour file written by an independent writer;
  gaussian_blurring: grid = Cartesian product of n_k equally spaced points lo_k..hi_k (x slowest, every point once);
                     value = sum over particles with minimum-image distance r < cut of exp(-r^2/2s^2)/sqrt(2 pi s^2) A_p;
  time_average     : w = floor(period/interval) frames per window, row n = mean of frames n..n+w-1, T-w rows,
                     reported index = a central frame of the window, increasing by one per row.
"""
from __future__ import annotations

import os

import numpy as np
from hypothesis import strategies as st
from hypothesis.extra import numpy as hnp

from ..gen import cell_st, fl, frac_st, nice_float, ppp_st, snapshot_from
from ..harness import Facet, Violation
from ..ref import cgref
from ..util import arr, close, equal, require

from PyMatterSim.reader.reader_utils import Snapshots
from PyMatterSim.utils.coarse_graining import gaussian_blurring, spatial_average, time_average

RULE = ("spatial: rank 0-2 real/complex properties x 1-3 frames x synthetic neighbour files (cn 0..6, rows in any id "
        "order, per-frame lists differ) x Nmax {default, >=, ==, < largest cn}; gaussian: d {2,3} x grids with equal "
        "and unequal point numbers x ortho (any origin) and triclinic cells x masks x sigma, cut x rank 0-2 x 1-2 frames "
        "(box may change between frames); window: T 2-10 x w 1..T-1 x exact-multiple / fractional / decimal-multiple "
        "periods x real/complex. Extension 1: coordination number varying within a frame (padded rows, particle 0 "
        "non-zero), sheared two-frame series (same edges, different tilt), second call with new contents in the same "
        "array / Snapshots objects and the same file name. Non-trivial rules per facet.")
ASSUMPTIONS = [
    "properties are float64 or complex128 arrays (integer arrays cannot be divided in place); gaussian_blurring is "
    "documented for float properties only",
    "time_average is documented for shape [nsnapshots, nparticle] only (higher ranks raise a broadcast error), so only "
    "rank 0 is generated there",
    "neighbour lists hold distinct particles other than the centre, 1-based ids, one header per frame",
    "grid points whose cut-off sphere passes within 1e-9 (relative) of a particle, or - in triclinic cells - whose "
    "minimum image is tied, are not compared (either outcome valid)",
    "decimal periods such as 0.03 with interval 0.01: floor(period/interval) is decided by float rounding, w-1 or w "
    "are both accepted there; exact dyadic multiples are asserted exactly",
    "number of rows of time_average = T - w as documented by DESIGN (the last complete window is not required)",
]
MANIFEST = {
    "text": "spatial_average, gaussian_blurring and time_average agree with direct re-computations of the stated "
            "neighbour mean, Gaussian grid sum (grid layout, every point once, x slowest; minimum image; cut-off; "
            "normalisation; masks; unequal point numbers; 2D/3D; multi-frame) and window mean with the central-frame "
            "index, for generated properties of rank 0-2",
    "note": "reference implementations in pbt/ref/cgref.py (numpy only); minimum image = contract of C02; "
            "generated sizes N <= 10, <= 36 grid points, T <= 10; ambiguity margin 1e-9 at the cut-off sphere",
    "technique": "property-based testing (Hypothesis): reference-model differential with generated neighbour files, "
                 "grids and windows; interval rule at discontinuities; side files compared with return values",
}

VAL = st.one_of(st.integers(-40, 40).map(lambda k: k / 4.0), fl(-10.0, 10.0))


@st.composite
def prop_st(draw, T, N, rank, cplx, dims=(1, 3)):
    shape = (T, N)
    if rank == 1:
        shape += (draw(st.integers(*dims)),)
    elif rank == 2:
        shape += (draw(st.integers(*dims)), draw(st.integers(*dims)))
    a = draw(hnp.arrays(np.float64, shape, elements=VAL, fill=st.nothing()))
    if cplx:
        a = a + 1j * draw(hnp.arrays(np.float64, shape, elements=VAL, fill=st.nothing()))
    return a


# ============================================================================= spatial_average


@st.composite
def lists_st(draw, T, N, cnmax=6, cnmin=0):
    frames, order = [], []
    for _ in range(T):
        fr = []
        for i in range(N):
            others = [j for j in range(N) if j != i]
            cn = draw(st.integers(min(cnmin, len(others)), min(cnmax, len(others))))
            perm = draw(st.permutations(others)) if others else []
            fr.append([int(j) for j in perm[:cn]])
        frames.append(fr)
        order.append([int(k) for k in (draw(st.permutations(range(N))) if draw(st.booleans()) else range(N))])
    return frames, order


@st.composite
def spatial_st(draw):
    T = draw(st.integers(1, 3))
    N = draw(st.integers(1, 10))
    rank = draw(st.integers(0, 2))
    cplx = draw(st.booleans())
    prop = draw(prop_st(T, N, rank, cplx))
    frames, order = draw(lists_st(T, N))
    maxcn = max(len(l) for fr in frames for l in fr)
    modes = ["default", "big", "equal"] + (["trunc"] if maxcn >= 2 else [])
    mode = draw(st.sampled_from(modes))
    nmax = {"default": None, "big": maxcn + draw(st.integers(1, 5)), "equal": max(maxcn, 1),
            "trunc": draw(st.integers(1, max(1, maxcn - 1)))}[mode]
    case = {"prop": prop, "frames": frames, "order": order, "nmax": nmax, "mode": mode,
            "style": draw(st.sampled_from(["plain", "padded", "tight"])), "save": draw(st.booleans()), "again": None}
    if draw(st.integers(0, 3)) == 0:
        # a second call with new contents in the SAME array object and the SAME file name
        frames2, order2 = draw(lists_st(T, N))
        case["again"] = {"prop": draw(prop_st(T, N, 0, cplx)) if rank == 0 else None, "frames": frames2, "order": order2,
                         "shift": draw(VAL)}
    return case


def check_spatial(case):
    prop = case["prop"]
    T, N = prop.shape[:2]
    fn = os.path.join(os.getcwd(), "nb.dat")
    with open(fn, "w") as f:
        f.write(cgref.neighbor_file_text(case["frames"], case["order"], case["style"]))
    inp = prop.copy()
    kw = {}
    if case["nmax"] is not None:
        kw["Nmax"] = case["nmax"]
    if case["save"]:
        kw["outputfile"] = "sa_out.npy"
    got = spatial_average(inp, fn, **kw)
    want = cgref.spatial_average(prop, case["frames"], case["nmax"])
    scale = max(1.0, float(np.abs(prop).max()) if prop.size else 1.0)
    g = arr("spatial_average", got, shape=prop.shape)
    require(g.dtype == prop.dtype, f"spatial_average: dtype {g.dtype} returned for {prop.dtype} input")
    close("spatial_average", g, want, rtol=1e-10, atol=1e-12 * scale)
    require(np.array_equal(inp, prop), "spatial_average modified its input array")
    if case["save"]:
        require(os.path.exists("sa_out.npy"), "spatial_average: outputfile not written")
        equal("spatial_average outputfile", np.load("sa_out.npy"), g)
    if case.get("again"):
        ag = case["again"]
        prop2 = ag["prop"] if ag["prop"] is not None else prop[::-1] * 0.5 + ag["shift"]
        inp[...] = prop2                                   # same array object, new contents
        with open(fn, "w") as f:                           # same file name, new lists
            f.write(cgref.neighbor_file_text(ag["frames"], ag["order"], case["style"]))
        nmax2 = case["nmax"]
        got2 = arr("spatial_average (second call)", spatial_average(inp, fn, **({"Nmax": nmax2} if nmax2 else {})),
                   shape=prop.shape)
        close("spatial_average, second call with new contents in the same array and file name", got2,
              cgref.spatial_average(prop2, ag["frames"], nmax2), rtol=1e-10,
              atol=1e-12 * max(1.0, float(np.abs(prop2).max())))
    cns = [len(l) for fr in case["frames"] for l in fr]
    differ = T > 1 and any(case["frames"][k] != case["frames"][0] for k in range(1, T))
    tags = [f"rank{prop.ndim - 2}", "complex" if np.iscomplexobj(prop) else "real", f"frames{T}",
            "nmax-" + case["mode"], "cn0-present" if 0 in cns else "cn>0",
            "rows-shuffled" if any(o != list(range(N)) for o in case["order"]) else "rows-ordered"]
    if differ:
        tags.append("lists-differ-per-frame")
    percn = [sorted({len(l) for l in fr}) for fr in case["frames"]]
    tags.append("cn-varies-within-frame" if any(len(c) > 1 for c in percn) else "cn-constant-within-frame")
    if any(len(fr[0]) < max(len(l) for l in fr) for fr in case["frames"]):
        tags.append("padded-rows-present")
    tags.append("p0-nonzero" if np.all(np.abs(prop[:, 0]).reshape(T, -1).max(axis=1) > 0.1) else "p0-small")
    if case.get("again"):
        tags.append("second-call")
    nontrivial = bool(max(cns) >= 1 and not np.allclose(want, prop))
    return {"nontrivial": nontrivial, "tags": tags}


def describe_spatial(case):
    return {"shape": list(case["prop"].shape), "dtype": str(case["prop"].dtype), "nmax": case["nmax"],
            "frames": case["frames"][:2], "order": case["order"][:1]}


# ============================================================================= gaussian_blurring

GRIDS2 = [[5, 2], [2, 5], [3, 4], [4, 3], [2, 3], [6, 2], [2, 2], [3, 3], [4, 4], [5, 5]]
GRIDS3 = [[3, 4, 2], [3, 3, 3], [2, 3, 4], [4, 2, 3], [2, 2, 3], [3, 2, 2], [2, 3, 2], [2, 2, 2], [4, 3, 3]]


@st.composite
def gauss_st(draw):
    d = draw(st.sampled_from([2, 3]))
    if draw(st.booleans()):
        ngrids = list(draw(st.sampled_from(GRIDS2 if d == 2 else GRIDS3)))
    else:
        ngrids = [draw(st.integers(2, 6 if d == 2 else 4)) for _ in range(d)]
    T = draw(st.integers(1, 2))
    kind = draw(st.sampled_from(["ortho", "ortho", "ortho", "tri"]))
    cells = [draw(cell_st(d, kind, lmin=1.0, lmax=30.0))]
    if T == 2:
        how = draw(st.sampled_from(["same", "fresh", "retilt", "retilt", "retilt"] if kind == "tri" else ["same", "fresh"]))
        if how == "fresh":
            cells.append(draw(cell_st(d, kind, lmin=1.0, lmax=30.0)))
        elif how == "retilt":
            # sheared trajectory: same edge lengths and origin, different tilt factors
            c2 = draw(cell_st(d, "tri", lmin=1.0, lmax=30.0))
            H2 = c2["H"] / np.diag(c2["H"])[None, :] * np.diag(cells[0]["H"])[None, :]
            cells.append({"d": d, "kind": "tri", "H": H2, "lo": cells[0]["lo"].copy(), "origin": cells[0]["origin"]})
        else:
            cells.append(cells[0])
    N = draw(st.integers(1, 10))
    ppp = draw(ppp_st(d))
    pos = []
    for c in cells:
        f = draw(frac_st(N, d))
        offs = np.zeros((N, d))
        if draw(st.booleans()):
            offs = draw(hnp.arrays(np.int64, (N, d), elements=st.integers(-1, 1), fill=st.nothing())).astype(float) * ppp
        pos.append(c["lo"] + (f + offs) @ c["H"])
    rank = draw(st.integers(0, 2))
    prop = draw(prop_st(T, N, rank, False))
    lmin = min(float(np.diag(c["H"]).min()) for c in cells)
    defaults = bool(np.all(ppp == 1)) and draw(st.sampled_from([False] * 7 + [True]))
    if defaults:
        sigma, cut = 2.0, 6.0
    else:
        sigma = lmin * draw(nice_float(0.05, 1.0))
        if draw(st.booleans()):
            cut = sigma * draw(nice_float(0.3, 8.0))
        else:
            cut = lmin * draw(nice_float(0.1, 0.8))     # a sphere that holds some but not all particles
    ppp_pad = None
    if d == 2 and draw(st.booleans()):
        ppp_pad = int(draw(st.integers(0, 1)))
    return {"d": d, "ngrids": ngrids, "cells": cells, "pos": pos, "ppp": ppp, "ppp_pad": ppp_pad, "prop": prop,
            "sigma": float(sigma), "cut": float(cut), "defaults": defaults,
            "as_array": draw(st.booleans()), "save": draw(st.booleans()),
            "again": ({"scale": float(draw(st.sampled_from([0.5, 2.0, 1.25, 0.8]))), "shift": float(draw(VAL))}
                      if draw(st.integers(0, 3)) == 0 else None)}


def _verify_gauss(tag, res, snaps, Hs, pos, prop, case):
    d, ngrids = case["d"], case["ngrids"]
    T, N = prop.shape[:2]
    G = int(np.prod(ngrids))
    require(isinstance(res, tuple) and len(res) == 2, f"gaussian_blurring{tag} returned {type(res).__name__}, not a pair")
    gp = arr("grid_positions" + tag, res[0], shape=(T, G, d))
    gv = arr("grid_property" + tag, res[1], shape=(T, G) + prop.shape[2:])
    namb = 0
    cutpartial = wrapped = nonzero = False
    for n in range(T):
        bounds = snaps.snapshots[n].boxbounds
        grid = cgref.grid_points(bounds, ngrids)
        bscale = max(1.0, float(np.abs(bounds).max()))
        close(f"grid positions{tag}, frame {n}, ngrids {ngrids}", gp[n], grid, rtol=1e-12, atol=1e-12 * bscale)
        vals, absv, amb, stats = cgref.gaussian_blur_frame(pos[n], Hs[n], case["ppp"], grid, prop[n],
                                                           case["sigma"], case["cut"])
        ok = ~amb
        namb += int(amb.sum())
        if ok.any():
            want = vals[ok]
            g = gv[n][ok]
            bad = np.abs(g - want) > 1e-9 * np.abs(want) + 1e-10 * absv[ok] + 1e-300
            if bad.any():
                ti = tuple(int(i) for i in np.argwhere(bad)[0])
                gi = int(np.flatnonzero(ok)[ti[0]])
                raise Violation(f"grid values{tag}, frame {n}: {int(bad.sum())}/{bad.size} entries differ; first at grid "
                                f"point {gi} {grid[gi].tolist()} component {ti[1:]}: got {g[ti]!r}, want {want[ti]!r} "
                                f"({int(stats['ninside'][gi])} of {N} particles inside cut {case['cut']!r}, sigma "
                                f"{case['sigma']!r})")
        ni = stats["ninside"]
        cutpartial = cutpartial or bool(np.any(ni > 0) and np.any(ni < N))
        wrapped = wrapped or stats["wrapped"]
        nonzero = nonzero or bool(np.any(vals != 0))
    case["_last"] = (gp, gv)
    return namb, cutpartial, wrapped, nonzero


def check_gauss(case):
    case = dict(case)
    d, ngrids, prop = case["d"], case["ngrids"], case["prop"]
    T, N = prop.shape[:2]
    snaps = Snapshots(nsnapshots=T, snapshots=[snapshot_from(c, p, np.ones(N, dtype=int), 100 * k)
                                              for k, (c, p) in enumerate(zip(case["cells"], case["pos"]))])
    cond = prop.copy()
    ng = np.array(ngrids) if case["as_array"] else list(ngrids)
    ppp = case["ppp"].copy()
    if case["ppp_pad"] is not None:
        ppp = np.append(ppp, case["ppp_pad"])
    if case["defaults"]:
        args, kw = (snaps, cond, ng), {}
    else:
        args, kw = (snaps, cond, ng, case["sigma"], ppp), {"gaussian_cut": case["cut"]}
    if case["save"]:
        kw["outputfile"] = "gb"
    res = gaussian_blurring(*args, **kw)
    Hs = [c["H"] for c in case["cells"]]
    namb, cutpartial, wrapped, nonzero = _verify_gauss("", res, snaps, Hs, case["pos"], prop, case)
    require(np.array_equal(cond, prop), "gaussian_blurring modified the input property")
    for n in range(T):
        require(np.array_equal(snaps.snapshots[n].positions, case["pos"][n]), "gaussian_blurring modified positions")
    if case["save"]:
        gp, gv = case["_last"]
        for suffix, a in (("_positions.npy", gp), ("_properties.npy", gv)):
            require(os.path.exists("gb" + suffix), f"gaussian_blurring: gb{suffix} not written")
            equal("gaussian_blurring gb" + suffix, np.load("gb" + suffix), a)
    if case.get("again"):
        # second call on the SAME Snapshots / property objects after an in-place change of their contents
        sc, shift = case["again"]["scale"], case["again"]["shift"]
        for sn in snaps.snapshots:
            sn.positions[...] = sn.positions * sc
            sn.hmatrix[...] = sn.hmatrix * sc
            sn.boxbounds[...] = sn.boxbounds * sc
            sn.boxlength[...] = sn.boxlength * sc
            if sn.realbounds is not None:
                sn.realbounds[...] = sn.realbounds * sc
        prop2 = prop[:, ::-1] * 0.5 + shift
        cond[...] = prop2
        kw.pop("outputfile", None)
        res2 = gaussian_blurring(*args, **kw)
        a2 = _verify_gauss(" (second call, objects changed in place)", res2, snaps, [H * sc for H in Hs],
                           [p * sc for p in case["pos"]], prop2, case)
        namb += a2[0]
    unequal = len(set(ngrids)) > 1
    tags = [f"d{d}", "grid-unequal" if unequal else "grid-equal", f"rank{prop.ndim - 2}", f"frames{T}",
            case["cells"][0]["kind"], "origin-" + case["cells"][0]["origin"],
            "mask-full" if np.all(case["ppp"] == 1) else ("mask-open" if not case["ppp"].any() else "mask-partial"),
            "defaults" if case["defaults"] else "explicit-args"]
    if T == 2 and not (np.array_equal(case["cells"][1]["H"], case["cells"][0]["H"])
                       and np.array_equal(case["cells"][1]["lo"], case["cells"][0]["lo"])):
        tags.append("box-varies")
        if np.array_equal(np.diag(case["cells"][1]["H"]), np.diag(case["cells"][0]["H"])):
            tags.append("tilt-varies-only")
    if cutpartial:
        tags.append("cut-partial")
    if wrapped:
        tags.append("image-used")
    if namb:
        tags.append("ambiguous-points")
    if case["ppp_pad"] is not None:
        tags.append("ppp-len3-in-2d")
    if case.get("again"):
        tags.append("second-call")
    nontrivial = bool(nonzero and (unequal or d == 3) and cutpartial)
    return {"nontrivial": nontrivial, "tags": tags, "extra": {"ambiguous_grid_points": namb}}


def describe_gauss(case):
    return {"d": case["d"], "ngrids": case["ngrids"], "cell": case["cells"][0]["kind"],
            "H": np.round(case["cells"][0]["H"], 4).tolist(), "lo": np.round(case["cells"][0]["lo"], 4).tolist(),
            "ppp": case["ppp"].tolist(), "sigma": case["sigma"], "cut": case["cut"], "shape": list(case["prop"].shape),
            "pos0": np.round(case["pos"][0][:3], 4).tolist()}


# ============================================================================= time_average

DEC_DT = [0.001, 0.002, 0.005, 0.01, 0.0025, 0.0005, 0.004, 0.05, 0.1]
DEC_STEP = [1, 2, 5, 10, 20, 50, 100, 1000, 5000, 3, 7]


@st.composite
def window_st(draw):
    T = draw(st.one_of(st.integers(2, 10), st.integers(2, 10), st.integers(11, 24)))
    N = draw(st.integers(1, 6))
    cplx = draw(st.booleans())
    prop = draw(prop_st(T, N, 0, cplx))
    w = draw(st.integers(1, T - 1))
    mode = draw(st.sampled_from(["exact", "exact", "frac", "frac", "decimal"]))
    if mode == "decimal" and T < 3:
        mode = "exact"
    if mode == "exact":
        dt = draw(st.integers(1, 7)) * 2.0 ** (-draw(st.integers(0, 10)))
        step = draw(st.integers(1, 1000))
        period = w * (step * dt)            # exact: small integers times a power of two
    elif mode == "frac":
        dt = draw(nice_float(0.0005, 0.1))
        step = draw(st.integers(1, 5000))
        period = (w + draw(nice_float(0.05, 0.95))) * (step * dt)
    else:
        w = draw(st.integers(2, T - 1))
        dt = draw(st.sampled_from(DEC_DT))
        step = draw(st.sampled_from(DEC_STEP))
        period = float("%.10g" % (w * step * dt))   # the decimal number a user would type
    t0 = draw(st.one_of(st.just(0), st.integers(0, 10**7)))
    # dynamic range: "the mean over the window of w consecutive frames starting at n" depends on those frames only.  A
    # quantity relaxing over many decades, or one large early value, must not leak into later windows (a running-total
    # implementation -- cumulative sum, add-new/subtract-old -- loses every window that is small against the total).
    rng = draw(st.sampled_from(["flat", "flat", "relaxing", "early-outlier", "late-outlier"]))
    if rng == "relaxing":
        dec = draw(st.sampled_from([0.5, 1.0, 2.0, 3.0]))
        prop = prop * (10.0 ** (-dec * np.arange(T)))[:, None]
    elif rng in ("early-outlier", "late-outlier"):
        k = 0 if rng == "early-outlier" else T - 1
        j = draw(st.integers(0, N - 1))
        prop = prop.copy()
        prop[k, j] = prop[k, j] * 10.0 ** draw(st.sampled_from([6, 12, 18])) + 10.0 ** draw(st.sampled_from([6, 12, 18]))
    return {"prop": prop, "w": w, "mode": mode, "dt": float(dt), "step": int(step), "period": float(period), "t0": t0,
            "npint": draw(st.booleans()), "range": rng}


def check_window(case):
    prop, w, mode = case["prop"], case["w"], case["mode"]
    T, N = prop.shape
    cell = {"H": np.diag([3.0, 4.0]), "lo": np.zeros(2), "kind": "ortho"}
    pos = np.zeros((N, 2))
    ts = [case["t0"] + k * case["step"] for k in range(T)]
    sn = [snapshot_from(cell, pos, np.ones(N, dtype=int), t) for t in ts]
    if case["npint"]:
        sn = [type(s)(timestep=np.int64(s.timestep), nparticle=s.nparticle, particle_type=s.particle_type,
                      positions=s.positions, boxlength=s.boxlength, boxbounds=s.boxbounds, realbounds=s.realbounds,
                      hmatrix=s.hmatrix) for s in sn]
    snaps = Snapshots(nsnapshots=T, snapshots=sn)
    inp = prop.copy()
    res = time_average(snaps, inp, case["period"], case["dt"])
    require(isinstance(res, tuple) and len(res) == 2, f"time_average returned {type(res).__name__}, not a pair")
    vals = arr("time_average values", res[0], ndim=2)
    idx = arr("time_average indices", res[1], ndim=1)
    R = vals.shape[0]
    require(vals.shape[1] == N, f"time_average: {vals.shape[1]} columns for {N} particles")
    require(idx.shape[0] == R, f"time_average: {R} rows but {idx.shape[0]} indices")
    w_obs = T - R
    if mode == "decimal":
        require(w_obs in (w - 1, w), f"time_average: {R} rows for T={T}, period/interval = {w} up to rounding "
                                      f"(expected {T - w} or {T - w + 1} rows)")
    else:
        require(w_obs == w, f"time_average: {R} rows for T={T} and window of floor({case['period']!r}/"
                            f"({case['step']}*{case['dt']!r})) = {w} frames (expected {T - w})")
    want = cgref.window_means(prop, w_obs)[:R]
    # accuracy is asserted against the magnitude of the values INSIDE each window (per row and particle): a direct mean
    # of w numbers is accurate to w * eps * max|window|, whatever the rest of the series holds
    wmax = np.stack([np.abs(prop[n:n + w_obs]).max(axis=0) for n in range(R)]) if R else np.zeros((0, N))
    bad = np.abs(vals - want) > 1e-10 * np.abs(want) + 1e-12 * np.maximum(wmax, 1e-290)
    if bad.any():
        n, j = [int(x[0]) for x in np.nonzero(bad)]
        raise Violation(f"time_average values (window {w_obs} frames): row {n}, particle {j}: got {vals[n, j]!r}, mean of "
                        f"frames {n}..{n + w_obs - 1} is {want[n, j]!r} (largest |value| in that window {wmax[n, j]!r}, "
                        f"largest in the series {float(np.abs(prop).max())!r})")
    require(np.all(np.isreal(idx)) and np.all(np.asarray(idx, dtype=float) == np.round(np.asarray(idx, dtype=float))),
            f"time_average: non-integer frame indices {idx.tolist()}")
    fi = np.asarray(idx, dtype=float)
    centre = np.arange(R) + (w_obs - 1) / 2.0
    require(np.all(np.abs(fi - centre) <= 0.5),
            lambda: f"time_average: reported indices {fi.tolist()} are not central frames of the windows "
                    f"[n, n+{w_obs - 1}] (centres {centre.tolist()})")
    require(np.all(np.diff(fi) == 1), lambda: f"time_average: indices {fi.tolist()} do not advance by one per row")
    require(np.array_equal(inp, prop), "time_average modified its input")
    tags = [mode, "complex" if np.iscomplexobj(prop) else "real", "w-odd" if w_obs % 2 else "w-even",
            f"w{min(w_obs, 5)}{'+' if w_obs >= 5 else ''}", f"rows{min(R, 4)}{'+' if R >= 4 else ''}",
            "t0-zero" if case["t0"] == 0 else "t0-offset"]
    if mode == "decimal" and w_obs != w:
        tags.append("decimal-rounded-down")
    tags.append("range-" + case.get("range", "flat"))
    tags.append("T<=10" if T <= 10 else "T11-24")
    nontrivial = bool(w_obs >= 2 and R >= 2)
    return {"nontrivial": nontrivial, "tags": tags}


def describe_window(case):
    return {"T": int(case["prop"].shape[0]), "N": int(case["prop"].shape[1]), "w": case["w"], "mode": case["mode"],
            "dt": case["dt"], "step": case["step"], "period": case["period"], "dtype": str(case["prop"].dtype)}


FACETS = [
    Facet("spatial_average", spatial_st(), check_spatial, quick=1200, thorough=60000, describe=describe_spatial,
          shards_quick=2,
          rule="non-trivial = some particle has >= 1 neighbour and the averaged field differs from the input"),
    Facet("gaussian_blurring", gauss_st(), check_gauss, quick=2400, thorough=60000, describe=describe_gauss,
          shards_quick=6,
          rule="non-trivial = (unequal point numbers or 3D) and the cut-off includes some and excludes some (grid point, "
               "particle) pairs of a frame and some grid value is non-zero"),
    Facet("time_average", window_st(), check_window, quick=1600, thorough=80000, describe=describe_window,
          shards_quick=2, rule="non-trivial = window of >= 2 frames and >= 2 rows"),
]
