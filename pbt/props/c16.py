"""C16 — coarse graining: neighbour (spatial) average, Gaussian blurring on a grid, window (time) average.

Oracles are direct re-computations from the property statement / docs/utils.md VII (pbt/ref/cgref.py):
  spatial_average  : mean over the particle itself and its listed neighbours, frame by frame, from a synthetic
                     multi-frame neighbour file written by an independent writer;
  gaussian_blurring: grid = Cartesian product of n_k equally spaced points lo_k..hi_k (x slowest, every point once);
                     value = sum over particles with minimum-image distance r < cut of exp(-r^2/2s^2)/sqrt(2 pi s^2) A_p;
  time_average     : w = floor(period/interval) frames per window, row n = mean of frames n..n+w-1, T-w rows,
                     reported index = a central frame of the window, increasing by one per row.

CLAUSES (round 3 audit: clause / axis of the statement and quantifier -> facet, deciding assertion, populated class tags)
  S1 "any per-particle scalar, vector or tensor property"      spatial_average: close(g, want) over the whole array;
       rank0/rank1/rank2, tensor-square / tensor-non-square, real / complex, dtype-float64 / -complex128 and (NEW)
       dtype-float32 / -complex64 (single-precision tolerance), (NEW) layout-fortran / -strided / -readonly
  S2 "mean over itself and its listed neighbours"              same assertion, both directions, every particle;
       cn0-present, cn-varies-within-frame, padded-rows-present, p0-nonzero, (NEW) lists-directed (scatter != gather),
       (NEW) N20-64, cnmax7-30, cnmax>30; dtype of the result = dtype of the input; input untouched
  S3 "frame by frame"                                          frames1..3, lists-differ-per-frame, second-call
  S4 "neighbour files" (quantifier)                            plain / padded / tight text, rows-shuffled; Nmax omitted /
       larger / equal / smaller than the longest list, (NEW) Nmax as np.int64, (NEW) default-Nmax-truncates: lists longer
       than the default Nmax = 30 with Nmax omitted (WAS: cn <= 6, the default was never the binding one)
  G1 "full Cartesian grid of the requested numbers of equally spaced points spanning the box bounds (each grid point
      exactly once, x slowest)"                                gaussian_blurring / gaussian_large: close(gp[n], grid) for
       every point in order; grid-equal / grid-unequal, d2 / d3, origin-*, box-varies, (NEW) ngrids-list / -array /
       -array-int32 / -tuple, (NEW) G65-600 with G%64!=0 (WAS: <= 64 points: a blocked loop that loses the remainder was
       invisible), (NEW) int-box-fractional-grid (integer bounds, non-integer grid points)
  G2 "sum over particles within the cutoff"                    per grid point value comparison, ambiguity rule at the
       sphere; cut-partial, ambiguous-points, (NEW) N30-150
  G3 "normalised Gaussian of the minimum-image distance"       same comparison; ortho / tri / (NEW) general (axis-permuted
       triclinic cell, cell-not-lower-triangular) / (NEW) int (int64 hmatrix, bounds and integer coordinates),
       tilt-negative / tilt-positive, tilt-varies-only, image-used, mask-full / -partial / -open, ppp-len3-in-2d, (NEW) ppp-list,
       (NEW) particle-on-grid-point (r = 0 exactly), (NEW) params-int / params-np.int64 (sigma = 2, gaussian_cut = 6)
  G4 "times the property" (rank 0..2)                          rank0..2, tensor-non-square, (NEW) cond-float32 / -int64 /
       -int32 / -indicator (0/1 membership field): accepted by every branch of the unchanged routine although the docs
       say "type should be float"; the result is float64 whatever the input dtype
  G5 frames                                                    frames1 / frames2 / (NEW) frames3; second-call
  W1 "mean over the window of floor(period/interval) consecutive frames starting at n"
                                                               time_average: row count = T - w, values against the mean of
       exactly those frames, accuracy relative to the largest value INSIDE the window; exact / frac / decimal, w1..w5+,
       w-odd / w-even, range-relaxing / -early-outlier / -late-outlier, (NEW) decimal-crisp: where every true-division
       order of period / (step * dt) gives the intended w, w is demanded (WAS: w - 1 or w accepted for every decimal
       period, so floor division went unseen; decimal-crisp-floor-division-differs counts the deciding cases),
       (NEW) default-dt (dt omitted: WAS never omitted), (NEW) period-type-int / -np.int64, (NEW) rows0 =
       window-is-whole-trajectory, (NEW) dtype-float32 / -complex64, layouts, (NEW) second-call on the same objects
  W2 "reported with the index of the window's central frame"   |index - (n + (w-1)/2)| <= 1/2, integer-valued, +1 per row
  W3 "periods that are exact multiples of the frame interval"  exact (dyadic, asserted exactly), decimal (see W1)
  Not asserted: one grid point on an axis (linspace(lo, hi, 1) = lo is numpy's convention, the statement's "spanning"
  does not define it); complex properties in gaussian_blurring (documented float; the routine drops the imaginary part);
  integer properties in spatial_average (in-place division raises: documented float); rank > 0 in time_average
  (documented shape [nsnapshots, nparticle], higher ranks raise); neighbour files holding more frames than the property.

Deep (thorough-tier only) facets: deep_sizes_spatial (N 100..500, cn up to 90), deep_sizes_gaussian (N 200..1500,
60 x 60 / 16^3 grids), deep_sizes_window (T 25..300, N up to 300).
"""
from __future__ import annotations

import os

import numpy as np
from hypothesis import strategies as st
from hypothesis.extra import numpy as hnp

from ..gen import cell_st, fl, frac_st, nice_float, ppp_st, snapshot_from
from ..harness import Facet, Violation
from ..ref import cgref
from ..util import arr, close, equal, require

from PyMatterSim.reader.reader_utils import Snapshots
from PyMatterSim.utils.coarse_graining import gaussian_blurring, spatial_average, time_average

RULE = ("spatial: rank 0-2 real/complex properties (float64/complex128, float32/complex64; C / Fortran / strided / "
        "read-only layouts) x 1-3 frames x synthetic directed neighbour files (cn 0..6 element-drawn, N 20-64 with cn up to "
        "45 from a drawn seed, rows in any id order, per-frame lists differ) x Nmax {default (truncating at 30), >=, ==, < "
        "largest cn; int / np.int64}; gaussian: d {2,3} x grids with equal and unequal point numbers (2-6 per axis; "
        "gaussian_large 7-24 / 4-9 per axis) x ortho (any origin), triclinic, general (axis-permuted) and integer cells x "
        "masks x sigma, cut (float / int) x rank 0-2 x float64 / float32 / int64 / int32 / 0-1 properties x 1-3 frames (box "
        "may change between frames) x ngrids as list / tuple / int64 / int32 array; window: T 2-24 x w 1..T x "
        "exact-multiple / fractional / decimal-multiple periods / dt omitted x real/complex, single/double x period as float "
        "/ int. Coordination number varying within a frame (padded rows, particle 0 non-zero), sheared multi-frame series "
        "(same edges, different tilt), second call with new contents in the same array / Snapshots objects and the same "
        "file name (all three routines). Non-trivial rules per facet.")
ASSUMPTIONS = [
    "spatial_average / time_average: properties are float64, complex128, float32 or complex64 arrays (integer arrays "
    "cannot be divided in place); gaussian_blurring is documented for float properties; float32 and integer-valued "
    "(int64 / int32) properties are generated as well because every branch of the routine accepts them, complex ones are not",
    "time_average is documented for shape [nsnapshots, nparticle] only (higher ranks raise a broadcast error), so only "
    "rank 0 is generated there",
    "neighbour lists hold distinct particles other than the centre, 1-based ids, one header per frame; lists longer than "
    "Nmax (default 30) are cut to their first Nmax entries (read_neighbors, property C05)",
    "grid points whose cut-off sphere passes within 1e-9 (relative) of a particle, or - in non-orthogonal cells - whose "
    "minimum image is tied, are not compared (either outcome valid); every axis has >= 2 grid points",
    "decimal periods such as 0.03 with interval 0.01: floor(period/interval) is demanded to be the intended multiple w "
    "when period/(step*dt), (period/dt)/step and (period/step)/dt all truncate to w in double precision; where some order "
    "gives w-1, w-1 and w are both accepted; exact dyadic multiples are asserted exactly",
    "number of rows of time_average = T - w as documented by DESIGN (the last complete window is not required); w = T "
    "gives zero rows",
    "single-precision inputs carry values exactly representable in float32; the routines may average them in single "
    "precision ((n + 2) 2^-24 per mean of n values)",
]
MANIFEST = {
    "text": "spatial_average, gaussian_blurring and time_average agree with direct re-computations of the stated "
            "neighbour mean (directed lists, coordination numbers 0..45, default Nmax truncation), Gaussian grid sum (grid "
            "layout, every point once, x slowest; minimum image in orthogonal, triclinic, axis-permuted and integer cells; "
            "cut-off; normalisation; masks; unequal point numbers up to 24 x 24 / 9 x 9 x 9; 2D/3D; multi-frame; float / "
            "integer properties and parameters) and window mean with the central-frame index (exact, fractional and decimal "
            "periods, default dt, whole-trajectory window, second call on the same objects), for generated properties of "
            "rank 0-2",
    "note": "reference implementations in pbt/ref/cgref.py (numpy only); minimum image = contract of C02; "
            "quick-tier sizes N <= 150, <= 729 grid points, T <= 24 (thorough: N <= 1500, 3600 grid points, T <= 300); "
            "ambiguity margin 1e-9 at the cut-off sphere",
    "technique": "property-based testing (Hypothesis): reference-model differential with generated neighbour files, "
                 "grids and windows; interval rule at discontinuities; side files compared with return values",
}

VAL = st.one_of(st.integers(-40, 40).map(lambda k: k / 4.0), fl(-10.0, 10.0))


@st.composite
def prop_st(draw, T, N, rank, cplx, dims=(1, 3), elements=None):
    VAL = elements if elements is not None else globals()["VAL"]
    shape = (T, N)
    if rank == 1:
        shape += (draw(st.integers(*dims)),)
    elif rank == 2:
        shape += (draw(st.integers(*dims)), draw(st.integers(*dims)))
    a = draw(hnp.arrays(np.float64, shape, elements=VAL, fill=st.nothing()))
    if cplx:
        a = a + 1j * draw(hnp.arrays(np.float64, shape, elements=VAL, fill=st.nothing()))
    return a


# ============================================================================= spatial_average


@st.composite
def lists_st(draw, T, N, cnmax=6, cnmin=0):
    frames, order = [], []
    for _ in range(T):
        fr = []
        for i in range(N):
            others = [j for j in range(N) if j != i]
            cn = draw(st.integers(min(cnmin, len(others)), min(cnmax, len(others))))
            perm = draw(st.permutations(others)) if others else []
            fr.append([int(j) for j in perm[:cn]])
        frames.append(fr)
        order.append([int(k) for k in (draw(st.permutations(range(N))) if draw(st.booleans()) else range(N))])
    return frames, order


GRID4 = st.integers(-40, 40).map(lambda k: k / 4.0)      # exactly representable in float32


def _rng_lists(seed, T, N, cnlo, cnhi, same_cn):
    """Directed neighbour lists from a drawn seed (big systems: drawing 60 permutations of 60 ids element by element is
    too slow).  Each particle lists cn distinct OTHER particles in random order, cn in [cnlo, cnhi] varying within the
    frame; particle 0 always carries fewer entries than the frame maximum (padded row)."""
    rng = np.random.default_rng(seed)
    frames, order = [], []
    for _ in range(T):
        fr = []
        for i in range(N):
            others = np.array([j for j in range(N) if j != i])
            cn = cnhi if same_cn else int(rng.integers(cnlo, cnhi + 1))
            if i == 0 and not same_cn:
                cn = cnlo
            fr.append([int(j) for j in rng.permutation(others)[:min(cn, N - 1)]])
        frames.append(fr)
        order.append([int(k) for k in (rng.permutation(N) if rng.integers(0, 2) else np.arange(N))])
    return frames, order


@st.composite
def spatial_st(draw, deep=False):
    big = deep or draw(st.integers(0, 5)) == 0
    rank = draw(st.integers(0, 2))
    cplx = draw(st.booleans())
    single = draw(st.integers(0, 4)) == 0        # float32 / complex64 property (values on the 1/4 grid: exact)
    if big:
        # realistic list lengths: N 20..64, coordination numbers up to 45 -- longer than the DEFAULT Nmax = 30, which
        # then truncates -- from a drawn seed
        T = draw(st.integers(1, 2))
        N = draw(st.sampled_from([20, 32, 33, 40, 47, 47, 64, 64] if not deep else [100, 128, 257, 500]))
        cnhi = draw(st.sampled_from([12, 29, 30, 31, 32, 38, 45, 45] if not deep else [12, 30, 31, 45, 60, 90]))
        cnhi = min(cnhi, N - 1)
        cnlo = draw(st.sampled_from([0, 1, 5, max(0, cnhi - 3)]))
        frames, order = _rng_lists(draw(st.integers(0, 2 ** 32 - 1)), T, N, cnlo, cnhi, draw(st.integers(0, 4)) == 0)
        shape = (T, N) + {0: (), 1: (draw(st.integers(1, 3)),), 2: (draw(st.integers(1, 3)), draw(st.integers(1, 3)))}[rank]
        rng = np.random.default_rng(draw(st.integers(0, 2 ** 32 - 1)))
        prop = rng.integers(-40, 41, size=shape) / 4.0
        if cplx:
            prop = prop + 1j * rng.integers(-40, 41, size=shape) / 4.0
        prop[:, 0] = prop[:, 0] + 100.0          # particle 0 would be noticed if it leaked through zero padding
    else:
        T = draw(st.integers(1, 3))
        N = draw(st.integers(1, 10))
        prop = draw(prop_st(T, N, rank, cplx, elements=GRID4 if single else VAL))
        frames, order = draw(lists_st(T, N))
    maxcn = max(len(l) for fr in frames for l in fr)
    modes = ["default", "big", "equal"] + (["trunc"] if maxcn >= 2 else [])
    if big and maxcn > 30:
        modes += ["default", "default"]
    mode = draw(st.sampled_from(modes))
    nmax = {"default": None, "big": maxcn + draw(st.integers(1, 5)), "equal": max(maxcn, 1),
            "trunc": draw(st.integers(1, max(1, maxcn - 1)))}[mode]
    case = {"prop": prop, "frames": frames, "order": order, "nmax": nmax, "mode": mode,
            "style": draw(st.sampled_from(["plain", "padded", "tight"])), "save": draw(st.booleans()), "again": None,
            "single": single, "big": big,
            "layout": draw(st.sampled_from(["c", "c", "c", "fortran", "strided", "readonly"])),
            "nmax_repr": draw(st.sampled_from(["int", "int", "np.int64"])), "relname": draw(st.booleans())}
    if draw(st.integers(0, 3)) == 0 and not big:
        # a second call with new contents in the SAME array object and the SAME file name
        frames2, order2 = draw(lists_st(T, N))
        case["again"] = {"prop": draw(prop_st(T, N, 0, cplx)) if rank == 0 else None, "frames": frames2, "order": order2,
                         "shift": draw(VAL)}
    return case


def _as_layout(a, how):
    """The same values in another memory layout (what numpy hands to callers: transposed loads, slices, mmap)."""
    if how == "fortran":
        return np.asfortranarray(a)
    if how == "strided":                       # every second particle of an array twice as wide; the gaps hold NaN
        base = np.full((a.shape[0], 2 * a.shape[1]) + a.shape[2:], np.nan, dtype=a.dtype)
        base[:, 1::2] = a
        return base[:, 1::2]
    out = a.copy()
    if how == "readonly":
        out.flags.writeable = False
    return out


def check_spatial(case):
    prop = case["prop"]
    single = case.get("single", False)
    if single:
        prop = prop.astype(np.complex64 if np.iscomplexobj(prop) else np.float32)   # exact: values on the 1/4 grid
    T, N = prop.shape[:2]
    fn = "nb.dat" if case.get("relname") else os.path.join(os.getcwd(), "nb.dat")   # relative / absolute file name
    with open(fn, "w") as f:
        f.write(cgref.neighbor_file_text(case["frames"], case["order"], case["style"]))
    layout = case.get("layout", "c")
    inp = _as_layout(prop, layout)
    kw = {}
    if case["nmax"] is not None:
        kw["Nmax"] = np.int64(case["nmax"]) if case.get("nmax_repr") == "np.int64" else case["nmax"]
    if case["save"]:
        kw["outputfile"] = "sa_out.npy"
    got = spatial_average(inp, fn, **kw)
    # default Nmax = 30 (docs/utils.md VII.2 via the signature): longer lists are cut to their first 30 entries
    eff_nmax = 30 if case["nmax"] is None else case["nmax"]
    prop64 = prop.astype(np.complex128 if np.iscomplexobj(prop) else np.float64)
    want = cgref.spatial_average(prop64, case["frames"], eff_nmax)
    scale = max(1.0, float(np.abs(prop).max()) if prop.size else 1.0)
    cns = [len(l) for fr in case["frames"] for l in fr]
    # float64: mean of <= 46 numbers, 1e-12 scale covers it (46 eps = 1e-14).  float32 / complex64 input: the library
    # may accumulate in single precision: (cn + 2) u per value with u = 2^-24
    tol = dict(rtol=1e-10, atol=1e-12 * scale) if not single else dict(rtol=0.0, atol=2.0 * (max(cns) + 2) * 2.0 ** -24 * scale)
    g = arr("spatial_average", got, shape=prop.shape)
    require(g.dtype == prop.dtype, f"spatial_average: dtype {g.dtype} returned for {prop.dtype} input")
    close("spatial_average", g, want, **tol)
    require(np.array_equal(inp, prop), "spatial_average modified its input array")
    if case["save"]:
        require(os.path.exists("sa_out.npy"), "spatial_average: outputfile not written")
        equal("spatial_average outputfile", np.load("sa_out.npy"), g)
    if case.get("again"):
        ag = case["again"]
        prop2 = ag["prop"] if ag["prop"] is not None else prop[::-1] * 0.5 + ag["shift"]
        prop2 = prop2.astype(prop.dtype)
        if layout == "readonly":
            inp = inp.copy()
        inp[...] = prop2                                   # same array object, new contents
        with open(fn, "w") as f:                           # same file name, new lists
            f.write(cgref.neighbor_file_text(ag["frames"], ag["order"], case["style"]))
        nmax2 = case["nmax"]
        got2 = arr("spatial_average (second call)", spatial_average(inp, fn, **({"Nmax": nmax2} if nmax2 else {})),
                   shape=prop.shape)
        tol2 = dict(tol)
        tol2["atol"] = tol["atol"] / scale * max(1.0, float(np.abs(prop2).max()))
        close("spatial_average, second call with new contents in the same array and file name", got2,
              cgref.spatial_average(prop2.astype(prop64.dtype), ag["frames"], 30 if nmax2 is None else nmax2), **tol2)
    differ = T > 1 and any(case["frames"][k] != case["frames"][0] for k in range(1, T))
    tags = [f"rank{prop.ndim - 2}", "complex" if np.iscomplexobj(prop) else "real", f"frames{T}",
            "nmax-" + case["mode"], "cn0-present" if 0 in cns else "cn>0",
            "rows-shuffled" if any(o != list(range(N)) for o in case["order"]) else "rows-ordered",
            "dtype-" + prop.dtype.name, "layout-" + layout, "file-relative" if case.get("relname") else "file-absolute",
            "N<=10" if N <= 10 else "N20-64", "cnmax<=6" if max(cns) <= 6 else "cnmax7-30" if max(cns) <= 30 else "cnmax>30"]
    if case["nmax"] is None and max(cns) > 30:
        tags.append("default-Nmax-truncates")
    if case["nmax"] is not None:
        tags.append("Nmax-type-" + case.get("nmax_repr", "int"))
    if differ:
        tags.append("lists-differ-per-frame")
    percn = [sorted({len(l) for l in fr}) for fr in case["frames"]]
    tags.append("cn-varies-within-frame" if any(len(c) > 1 for c in percn) else "cn-constant-within-frame")
    if any(len(fr[0]) < max(len(l) for l in fr) for fr in case["frames"]):
        tags.append("padded-rows-present")
    # directed lists: i lists j but j does not list i (a scatter along bonds differs from the gather only then)
    directed = any(j in range(N) and i not in fr[j] for fr in case["frames"] for i in range(N) for j in fr[i][:eff_nmax])
    tags.append("lists-directed" if directed else "lists-symmetric")
    tags.append("p0-nonzero" if np.all(np.abs(prop[:, 0]).reshape(T, -1).max(axis=1) > 0.1) else "p0-small")
    if prop.ndim == 4:
        tags.append("tensor-square" if prop.shape[2] == prop.shape[3] else "tensor-non-square")
    if case.get("again"):
        tags.append("second-call")
    nontrivial = bool(max(cns) >= 1 and not np.allclose(want, prop))
    return {"nontrivial": nontrivial, "tags": tags}


def describe_spatial(case):
    return {"shape": list(case["prop"].shape), "dtype": str(case["prop"].dtype), "nmax": case["nmax"],
            "frames": case["frames"][:2], "order": case["order"][:1]}


# ============================================================================= gaussian_blurring

GRIDS2 = [[5, 2], [2, 5], [3, 4], [4, 3], [2, 3], [6, 2], [2, 2], [3, 3], [4, 4], [5, 5]]
GRIDS3 = [[3, 4, 2], [3, 3, 3], [2, 3, 4], [4, 2, 3], [2, 2, 3], [3, 2, 2], [2, 3, 2], [2, 2, 2], [4, 3, 3]]


def _permuted_cell(c, perm):
    """A reader-style triclinic cell after an axis permutation: H -> P H P^T (no longer lower triangular)."""
    perm = list(perm)
    return {"d": c["d"], "kind": "general", "H": c["H"][perm][:, perm].copy(), "lo": c["lo"][perm].copy(),
            "origin": c["origin"]}


@st.composite
def _gauss_cell(draw, d, kind, ngrids):
    if kind == "general":
        perms = [p for p in __import__("itertools").permutations(range(d)) if list(p) != list(range(d))]
        return _permuted_cell(draw(cell_st(d, "tri", lmin=1.0, lmax=30.0)), draw(st.sampled_from(perms)))
    if kind == "int":
        # hand-built integer box (np.diag([10, 10, 10]), integer coordinates): every array of the snapshot is int64;
        # edge = (n_k - 1) * m so that the grid points have integer coordinates and particles can sit exactly on them
        if draw(st.booleans()):
            L = np.array([max(1, n - 1) * draw(st.integers(1, 6)) for n in ngrids], dtype=float)
        else:                                    # grid points generally not at integer coordinates
            L = np.array([draw(st.integers(2, 30)) for _ in ngrids], dtype=float)
        lo = np.array([float(draw(st.integers(-20, 20))) for _ in range(d)])
        if draw(st.booleans()):
            lo[:] = 0.0
        return {"d": d, "kind": "int", "H": np.diag(L), "lo": lo, "origin": "zero" if not lo.any() else "arbitrary"}
    return draw(cell_st(d, kind, lmin=1.0, lmax=30.0))


GB_DTYPES = ["float64"] * 6 + ["float32", "int64", "int32", "indicator"]


@st.composite
def gauss_st(draw, big=False, deep=False):
    d = draw(st.sampled_from([2, 3]))
    if big:
        # grids and particle numbers of real use (tests / docs: 20 x 20, 25 x 25): more than 64 grid points, any remainder
        if d == 2:
            ngrids = [draw(st.one_of(st.integers(7, 24), st.sampled_from([8, 16, 17, 20, 24, 25]))) if not deep else
                      draw(st.sampled_from([20, 25, 31, 32, 33, 47, 60])) for _ in range(2)]
        else:
            ngrids = [draw(st.one_of(st.integers(4, 9), st.sampled_from([4, 5, 8, 9]))) if not deep else
                      draw(st.sampled_from([7, 8, 9, 12, 16])) for _ in range(3)]
    elif draw(st.booleans()):
        ngrids = list(draw(st.sampled_from(GRIDS2 if d == 2 else GRIDS3)))
    else:
        ngrids = [draw(st.integers(2, 6 if d == 2 else 4)) for _ in range(d)]
    T = draw(st.sampled_from([1, 1, 1, 2, 2, 3])) if not big else draw(st.sampled_from([1, 1, 2]))
    kind = draw(st.sampled_from(["ortho", "ortho", "ortho", "tri", "tri", "general", "int"] if not big else
                                ["ortho", "ortho", "tri", "general"]))
    cells = [draw(_gauss_cell(d, kind, ngrids))]
    for _ in range(T - 1):
        how = draw(st.sampled_from(["same", "fresh", "retilt", "retilt", "retilt"] if kind == "tri" else ["same", "fresh"]))
        if how == "fresh":
            cells.append(draw(_gauss_cell(d, kind, ngrids)))
        elif how == "retilt":
            # sheared trajectory: same edge lengths and origin, different tilt factors
            c2 = draw(cell_st(d, "tri", lmin=1.0, lmax=30.0))
            H2 = c2["H"] / np.diag(c2["H"])[None, :] * np.diag(cells[0]["H"])[None, :]
            cells.append({"d": d, "kind": "tri", "H": H2, "lo": cells[0]["lo"].copy(), "origin": cells[0]["origin"]})
        else:
            cells.append(cells[0])
    N = draw(st.integers(1, 10)) if not big else draw(st.sampled_from([30, 64, 65, 100, 150] if not deep else
                                                                    [200, 500, 1000, 1500]))
    ppp = draw(ppp_st(d))
    rng = np.random.default_rng(draw(st.integers(0, 2 ** 32 - 1))) if big else None
    pos = []
    for c in cells:
        if kind == "int":
            L = np.diag(c["H"])
            f = np.array([[float(draw(st.integers(0, int(L[k]) - 1))) for k in range(d)] for _ in range(N)]) / L
        elif big:
            f = rng.random((N, d))
        else:
            f = draw(frac_st(N, d))
        offs = np.zeros((N, d))
        if draw(st.booleans()):
            if big:
                offs = rng.integers(-1, 2, size=(N, d)).astype(float) * ppp
            else:
                offs = draw(hnp.arrays(np.int64, (N, d), elements=st.integers(-1, 1), fill=st.nothing())).astype(float) * ppp
        pos.append(c["lo"] + (f + offs) @ c["H"] if kind != "int" else
                   np.round(c["lo"] + (f + offs) * np.diag(c["H"])))
    rank = draw(st.integers(0, 2))
    cdt = draw(st.sampled_from(GB_DTYPES))
    if big:
        shape = (T, N) + {0: (), 1: (draw(st.integers(1, 3)),), 2: (draw(st.integers(1, 3)), draw(st.integers(1, 3)))}[rank]
        prop = rng.integers(-40, 41, size=shape) / 4.0 if cdt != "float64" else rng.normal(size=shape) * 3.0
    else:
        prop = draw(prop_st(T, N, rank, False, elements=None if cdt == "float64" else GRID4))
    if cdt in ("int64", "int32"):
        prop = np.round(prop)                       # small integers, cast in check
    elif cdt == "indicator":
        prop = (prop > 0).astype(float)             # 0 / 1 membership field (e.g. particle_type == 1), stored as int64
    lmin = min(float(np.diag(c["H"]).min()) for c in cells)
    defaults = bool(np.all(ppp == 1)) and draw(st.sampled_from([False] * 4 + [True]))
    params = "float"
    if defaults:
        sigma, cut = 2.0, 6.0
    elif draw(st.integers(0, 5)) == 0:
        # the same numbers as Python / numpy integers (sigma=2, gaussian_cut=6)
        params = draw(st.sampled_from(["int", "np.int64"]))
        sigma = float(draw(st.integers(1, max(1, int(lmin)))))
        cut = float(draw(st.integers(1, max(2, int(3 * sigma)))))
    else:
        sigma = lmin * draw(nice_float(0.05, 1.0))
        if draw(st.booleans()):
            cut = sigma * draw(nice_float(0.3, 8.0))
        else:
            cut = lmin * draw(nice_float(0.1, 0.8))     # a sphere that holds some but not all particles
    ppp_pad = None
    if d == 2 and draw(st.booleans()):
        ppp_pad = int(draw(st.integers(0, 1)))
    return {"d": d, "ngrids": ngrids, "cells": cells, "pos": pos, "ppp": ppp, "ppp_pad": ppp_pad, "prop": prop,
            "sigma": float(sigma), "cut": float(cut), "defaults": defaults, "params": params, "cdt": cdt, "big": big,
            "ngrids_repr": draw(st.sampled_from(["list", "array", "array-int32", "tuple"])),
            "as_array": False, "save": draw(st.booleans()), "ppp_list": draw(st.integers(0, 3)) == 0,
            "again": ({"scale": float(draw(st.sampled_from([0.5, 2.0, 1.25, 0.8]))), "shift": float(draw(VAL))}
                      if draw(st.integers(0, 3)) == 0 and kind != "int" and not big else None)}


def _verify_gauss(tag, res, snaps, Hs, pos, prop, case):
    d, ngrids = case["d"], case["ngrids"]
    T, N = prop.shape[:2]
    G = int(np.prod(ngrids))
    require(isinstance(res, tuple) and len(res) == 2, f"gaussian_blurring{tag} returned {type(res).__name__}, not a pair")
    gp = arr("grid_positions" + tag, res[0], shape=(T, G, d))
    gv = arr("grid_property" + tag, res[1], shape=(T, G) + prop.shape[2:])
    namb = 0
    cutpartial = wrapped = nonzero = False
    for n in range(T):
        bounds = snaps.snapshots[n].boxbounds
        grid = cgref.grid_points(bounds, ngrids)
        bscale = max(1.0, float(np.abs(bounds).max()))
        close(f"grid positions{tag}, frame {n}, ngrids {ngrids}", gp[n], grid, rtol=1e-12, atol=1e-12 * bscale)
        vals, absv, amb, stats = cgref.gaussian_blur_frame(pos[n], Hs[n], case["ppp"], grid, prop[n],
                                                           case["sigma"], case["cut"])
        ok = ~amb
        namb += int(amb.sum())
        if ok.any():
            want = vals[ok]
            g = gv[n][ok]
            bad = np.abs(g - want) > 1e-9 * np.abs(want) + 1e-10 * absv[ok] + 1e-300
            if bad.any():
                ti = tuple(int(i) for i in np.argwhere(bad)[0])
                gi = int(np.flatnonzero(ok)[ti[0]])
                raise Violation(f"grid values{tag}, frame {n}: {int(bad.sum())}/{bad.size} entries differ; first at grid "
                                f"point {gi} {grid[gi].tolist()} component {ti[1:]}: got {g[ti]!r}, want {want[ti]!r} "
                                f"({int(stats['ninside'][gi])} of {N} particles inside cut {case['cut']!r}, sigma "
                                f"{case['sigma']!r})")
        ni = stats["ninside"]
        cutpartial = cutpartial or bool(np.any(ni > 0) and np.any(ni < N))
        wrapped = wrapped or stats["wrapped"]
        nonzero = nonzero or bool(np.any(vals != 0))
    case["_last"] = (gp, gv)
    return namb, cutpartial, wrapped, nonzero


def check_gauss(case):
    case = dict(case)
    d, ngrids, prop = case["d"], case["ngrids"], case["prop"]
    T, N = prop.shape[:2]
    sl = []
    for k, (c, p) in enumerate(zip(case["cells"], case["pos"])):
        if c["kind"] == "int":
            import dataclasses
            sn = snapshot_from(dict(c, kind="ortho"), p, np.ones(N, dtype=int), 100 * k)
            sn = dataclasses.replace(sn, positions=np.round(sn.positions).astype(np.int64),
                                     hmatrix=np.round(sn.hmatrix).astype(np.int64),
                                     boxlength=np.round(sn.boxlength).astype(np.int64),
                                     boxbounds=np.round(sn.boxbounds).astype(np.int64))
        else:
            sn = snapshot_from(c, p, np.ones(N, dtype=int), 100 * k)
        sl.append(sn)
    snaps = Snapshots(nsnapshots=T, snapshots=sl)
    cdt = case.get("cdt", "float64")
    cond = prop.astype({"float64": np.float64, "float32": np.float32, "int64": np.int64, "int32": np.int32,
                        "indicator": np.int64}[cdt])          # exact: grid / integer values
    require(np.array_equal(cond, prop), "harness: property not representable in the requested dtype")
    rep = case.get("ngrids_repr", "array" if case.get("as_array") else "list")
    ng = {"list": list(ngrids), "array": np.array(ngrids), "array-int32": np.array(ngrids, dtype=np.int32),
          "tuple": tuple(ngrids)}[rep]
    ppp = case["ppp"].copy()
    if case["ppp_pad"] is not None:
        ppp = np.append(ppp, case["ppp_pad"])
    if case.get("ppp_list"):
        ppp = [int(x) for x in ppp]                # the mask as a plain list
    conv = {"float": float, "int": int, "np.int64": np.int64}[case.get("params", "float")]
    if case["defaults"]:
        args, kw = (snaps, cond, ng), {}
    else:
        args, kw = (snaps, cond, ng, conv(case["sigma"]), ppp), {"gaussian_cut": conv(case["cut"])}
    if case["save"]:
        kw["outputfile"] = "gb"
    res = gaussian_blurring(*args, **kw)
    Hs = [c["H"] for c in case["cells"]]
    namb, cutpartial, wrapped, nonzero = _verify_gauss("", res, snaps, Hs, case["pos"], prop, case)
    require(np.array_equal(cond, prop) and cond.dtype == np.dtype(cdt if cdt != "indicator" else "int64"),
            "gaussian_blurring modified the input property")
    for n in range(T):
        require(np.array_equal(snaps.snapshots[n].positions, case["pos"][n]), "gaussian_blurring modified positions")
    if case["save"]:
        gp, gv = case["_last"]
        for suffix, a in (("_positions.npy", gp), ("_properties.npy", gv)):
            require(os.path.exists("gb" + suffix), f"gaussian_blurring: gb{suffix} not written")
            equal("gaussian_blurring gb" + suffix, np.load("gb" + suffix), a)
    if case.get("again"):
        # second call on the SAME Snapshots / property objects after an in-place change of their contents
        sc, shift = case["again"]["scale"], case["again"]["shift"]
        for sn in snaps.snapshots:
            sn.positions[...] = sn.positions * sc
            sn.hmatrix[...] = sn.hmatrix * sc
            sn.boxbounds[...] = sn.boxbounds * sc
            sn.boxlength[...] = sn.boxlength * sc
            if sn.realbounds is not None:
                sn.realbounds[...] = sn.realbounds * sc
        if cond.dtype.kind == "i":
            prop2 = prop[:, ::-1] * 2.0 + np.round(shift)          # stays integer-valued
        elif cond.dtype == np.float32:
            prop2 = prop[:, ::-1] * 0.5 + np.round(shift * 4.0) / 4.0   # stays on the 1/8 grid: exact in float32
        else:
            prop2 = prop[:, ::-1] * 0.5 + shift
        cond[...] = prop2
        require(np.array_equal(cond, prop2), "harness: second property not representable in the requested dtype")
        kw.pop("outputfile", None)
        res2 = gaussian_blurring(*args, **kw)
        a2 = _verify_gauss(" (second call, objects changed in place)", res2, snaps, [H * sc for H in Hs],
                           [p * sc for p in case["pos"]], prop2, case)
        namb += a2[0]
    unequal = len(set(ngrids)) > 1
    G = int(np.prod(ngrids))
    tags = [f"d{d}", "grid-unequal" if unequal else "grid-equal", f"rank{prop.ndim - 2}", f"frames{T}",
            case["cells"][0]["kind"], "origin-" + case["cells"][0]["origin"],
            "mask-full" if np.all(case["ppp"] == 1) else ("mask-open" if not case["ppp"].any() else "mask-partial"),
            "defaults" if case["defaults"] else "explicit-args",
            "ngrids-" + rep, "cond-" + cdt, "params-" + ("default" if case["defaults"] else case.get("params", "float")),
            "G<=36" if G <= 36 else "G37-64" if G <= 64 else "G65-600" if G <= 600 else "G>600",
            "N<=10" if N <= 10 else "N30-150" if N <= 150 else "N>150"]
    if G > 64:
        tags.append("G%64!=0" if G % 64 else "G%64==0")
    if prop.ndim == 4:
        tags.append("tensor-square" if prop.shape[2] == prop.shape[3] else "tensor-non-square")
    if case["cells"][0]["kind"] == "general":
        tags.append("cell-not-lower-triangular" if np.any(np.triu(case["cells"][0]["H"], 1)) else "cell-lower-triangular")
    if case["cells"][0]["kind"] == "int":
        sp = [np.diag(case["cells"][0]["H"])[k] / max(1, ngrids[k] - 1) for k in range(d)]
        tags.append("int-box-integer-grid" if all(float(x).is_integer() for x in sp) else "int-box-fractional-grid")
    if case["cells"][0]["kind"] == "tri":
        tl = case["cells"][0]["H"] - np.diag(np.diag(case["cells"][0]["H"]))
        tags.append("tilt-negative" if np.any(tl < 0) else "tilt-positive")
    for n in range(T):
        gpts = cgref.grid_points(snaps.snapshots[n].boxbounds, ngrids)
        if N * len(gpts) <= 4000 and np.any(np.all(gpts[:, None, :] == case["pos"][n][None, :, :], axis=2)):
            tags.append("particle-on-grid-point")
            break
    if T == 2 and not (np.array_equal(case["cells"][1]["H"], case["cells"][0]["H"])
                       and np.array_equal(case["cells"][1]["lo"], case["cells"][0]["lo"])):
        tags.append("box-varies")
        if np.array_equal(np.diag(case["cells"][1]["H"]), np.diag(case["cells"][0]["H"])):
            tags.append("tilt-varies-only")
    if cutpartial:
        tags.append("cut-partial")
    if wrapped:
        tags.append("image-used")
    if namb:
        tags.append("ambiguous-points")
    if case["ppp_pad"] is not None:
        tags.append("ppp-len3-in-2d")
    if not case["defaults"]:
        tags.append("ppp-list" if case.get("ppp_list") else "ppp-array")
    if case.get("again"):
        tags.append("second-call")
    nontrivial = bool(nonzero and (unequal or d == 3) and cutpartial)
    return {"nontrivial": nontrivial, "tags": tags, "extra": {"ambiguous_grid_points": namb}}


def describe_gauss(case):
    return {"d": case["d"], "ngrids": case["ngrids"], "cell": case["cells"][0]["kind"],
            "H": np.round(case["cells"][0]["H"], 4).tolist(), "lo": np.round(case["cells"][0]["lo"], 4).tolist(),
            "ppp": case["ppp"].tolist(), "sigma": case["sigma"], "cut": case["cut"], "shape": list(case["prop"].shape),
            "pos0": np.round(case["pos"][0][:3], 4).tolist()}


# ============================================================================= time_average

DEC_DT = [0.001, 0.002, 0.005, 0.01, 0.0025, 0.0005, 0.004, 0.05, 0.1]
DEC_STEP = [1, 2, 5, 10, 20, 50, 100, 1000, 5000, 3, 7]


def _window_counts(period, step, dt):
    """int(period / interval) under every order in which the quotient can be formed with true divisions in double
    precision (interval = step * dt)."""
    return {int(period / (step * dt)), int((period / dt) / step), int((period / step) / dt)}


@st.composite
def window_st(draw, deep=False):
    if deep:
        T = draw(st.one_of(st.integers(25, 300), st.sampled_from([64, 100, 128, 129, 200, 256, 257, 300])))
        N = draw(st.sampled_from([1, 7, 64, 300]))
    else:
        T = draw(st.one_of(st.integers(2, 10), st.integers(2, 10), st.integers(11, 24)))
        N = draw(st.integers(1, 6))
    cplx = draw(st.booleans())
    single = draw(st.integers(0, 5)) == 0
    if deep:
        rng = np.random.default_rng(draw(st.integers(0, 2 ** 32 - 1)))
        prop = rng.integers(-40, 41, size=(T, N)) / 4.0 if single else rng.normal(size=(T, N)) * 3.0
        if cplx:
            prop = prop + 1j * rng.integers(-40, 41, size=(T, N)) / 4.0
    else:
        prop = draw(prop_st(T, N, 0, cplx, elements=GRID4 if single else None))
    full = draw(st.sampled_from([False] * 15 + [True]))   # window = whole trajectory: T - w = 0 rows
    w = T if full else draw(st.integers(1, T - 1))
    mode = draw(st.sampled_from(["exact", "exact", "frac", "frac", "decimal", "decimal", "default-dt", "default-dt"]))
    if mode == "decimal" and (T < 3 or full):
        mode = "exact"
    prepr = "float"
    if mode == "exact":
        dt = draw(st.integers(1, 7)) * 2.0 ** (-draw(st.sampled_from([0, 0, 0, 1, 2, 3, 4, 5, 6, 7, 8, 9, 10])))
        step = draw(st.integers(1, 1000))
        period = w * (step * dt)            # exact: small integers times a power of two
        if float(period).is_integer() and draw(st.integers(0, 3)) > 0:
            prepr = draw(st.sampled_from(["int", "np.int64"]))   # time_period=20 rather than 20.0
    elif mode == "frac":
        dt = draw(nice_float(0.0005, 0.1))
        step = draw(st.integers(1, 5000))
        period = (w + draw(nice_float(0.05, 0.95))) * (step * dt)
    elif mode == "default-dt":
        # dt omitted: the documented default 0.002; fractional part well inside (0, 1)
        dt = None
        step = draw(st.sampled_from([1, 10, 100, 500, 1000, 5000, 3, 7]))
        period = (w + draw(st.sampled_from([0.25, 0.5, 0.75]))) * (step * 0.002)
    else:
        w = draw(st.integers(2, T - 1))
        dt = draw(st.sampled_from(DEC_DT))
        step = draw(st.sampled_from(DEC_STEP))
        period = float("%.10g" % (w * step * dt))   # the decimal number a user would type
    t0 = draw(st.one_of(st.just(0), st.integers(0, 10**7)))
    # dynamic range: "the mean over the window of w consecutive frames starting at n" depends on those frames only.  A
    # quantity relaxing over many decades, or one large early value, must not leak into later windows (a running-total
    # implementation -- cumulative sum, add-new/subtract-old -- loses every window that is small against the total).
    rng_kind = draw(st.sampled_from(["flat", "flat", "relaxing", "early-outlier", "late-outlier"]))
    if rng_kind == "relaxing":
        dec = draw(st.sampled_from([0.5, 1.0, 2.0, 3.0] if not deep else [0.05, 0.1, 0.2]))
        prop = prop * (10.0 ** (-dec * np.arange(T)))[:, None]
    elif rng_kind in ("early-outlier", "late-outlier"):
        k = 0 if rng_kind == "early-outlier" else T - 1
        j = draw(st.integers(0, N - 1))
        prop = prop.copy()
        prop[k, j] = prop[k, j] * 10.0 ** draw(st.sampled_from([6, 12, 18])) + 10.0 ** draw(st.sampled_from([6, 12, 18]))
    again = None
    if draw(st.integers(0, 3)) == 0 and not deep:
        # second call on the SAME Snapshots / array objects: contents replaced in place, another window
        w2 = draw(st.integers(1, T - 1))
        again = {"w": w2, "frac": draw(st.sampled_from([0.25, 0.5, 0.75])), "scale": draw(st.sampled_from([-2.0, 0.5, 3.0]))}
    return {"prop": prop, "w": w, "mode": mode, "dt": None if dt is None else float(dt), "step": int(step),
            "period": float(period), "t0": t0, "npint": draw(st.booleans()), "range": rng_kind, "single": single,
            "prepr": prepr, "again": again,
            "layout": draw(st.sampled_from(["c", "c", "c", "fortran", "strided", "readonly"]))}


def _check_window_result(label, res, prop, w_allowed, single):
    """Everything the statement says about one call: T - w rows, row n = mean of frames n .. n+w-1, central index."""
    T, N = prop.shape
    require(isinstance(res, tuple) and len(res) == 2, f"time_average{label} returned {type(res).__name__}, not a pair")
    vals = arr("time_average values" + label, res[0], ndim=2)
    idx = arr("time_average indices" + label, res[1], ndim=1)
    R = vals.shape[0]
    require(vals.shape[1] == N, f"time_average{label}: {vals.shape[1]} columns for {N} particles")
    require(idx.shape[0] == R, f"time_average{label}: {R} rows but {idx.shape[0]} indices")
    w_obs = T - R
    require(w_obs in w_allowed, f"time_average{label}: {R} rows for T={T}; window of floor(period/interval) = "
                                f"{sorted(w_allowed)} frames means {[T - x for x in sorted(w_allowed)]} rows")
    p64 = prop.astype(np.complex128 if np.iscomplexobj(prop) else np.float64)
    want = cgref.window_means(p64, w_obs)[:R]
    # accuracy is asserted against the magnitude of the values INSIDE each window (per row and particle): a direct mean
    # of w numbers is accurate to w * eps * max|window|, whatever the rest of the series holds.  1e-12 covers w <= 4000;
    # float32 / complex64 input may be averaged in single precision: (w + 2) 2^-24
    wmax = np.stack([np.abs(p64[n:n + w_obs]).max(axis=0) for n in range(R)]) if R else np.zeros((0, N))
    fac = 2.0 * (w_obs + 2) * 2.0 ** -24 if single else 1e-12
    bad = np.abs(vals - want) > (0.0 if single else 1e-10) * np.abs(want) + fac * np.maximum(wmax, 1e-290)
    if bad.any():
        n, j = [int(x[0]) for x in np.nonzero(bad)]
        raise Violation(f"time_average values{label} (window {w_obs} frames): row {n}, particle {j}: got {vals[n, j]!r}, "
                        f"mean of frames {n}..{n + w_obs - 1} is {want[n, j]!r} (largest |value| in that window "
                        f"{wmax[n, j]!r}, largest in the series {float(np.abs(prop).max())!r})")
    require(np.all(np.isreal(idx)) and np.all(np.asarray(idx, dtype=float) == np.round(np.asarray(idx, dtype=float))),
            f"time_average{label}: non-integer frame indices {idx.tolist()}")
    fi = np.asarray(idx, dtype=float)
    centre = np.arange(R) + (w_obs - 1) / 2.0
    require(np.all(np.abs(fi - centre) <= 0.5),
            lambda: f"time_average{label}: reported indices {fi.tolist()} are not central frames of the windows "
                    f"[n, n+{w_obs - 1}] (centres {centre.tolist()})")
    require(np.all(np.diff(fi) == 1), lambda: f"time_average{label}: indices {fi.tolist()} do not advance by one per row")
    return w_obs, R


def check_window(case):
    prop, w, mode = case["prop"], case["w"], case["mode"]
    single = case.get("single", False)
    if single:
        prop = prop.astype(np.complex64 if np.iscomplexobj(prop) else np.float32)
        # single-precision subnormals (relaxing series): a mean has an absolute, not a relative, error there
        prop[np.abs(prop) < 1e-30] = 0
    T, N = prop.shape
    cell = {"H": np.diag([3.0, 4.0]), "lo": np.zeros(2), "kind": "ortho"}
    pos = np.zeros((N, 2))
    ts = [case["t0"] + k * case["step"] for k in range(T)]
    sn = [snapshot_from(cell, pos, np.ones(N, dtype=int), t) for t in ts]
    if case["npint"]:
        sn = [type(s)(timestep=np.int64(s.timestep), nparticle=s.nparticle, particle_type=s.particle_type,
                      positions=s.positions, boxlength=s.boxlength, boxbounds=s.boxbounds, realbounds=s.realbounds,
                      hmatrix=s.hmatrix) for s in sn]
    snaps = Snapshots(nsnapshots=T, snapshots=sn)
    layout = case.get("layout", "c")
    inp = _as_layout(prop, layout)
    period = {"float": float, "int": int, "np.int64": np.int64}[case.get("prepr", "float")](case["period"])
    if case["dt"] is None:
        res = time_average(snaps, inp, period)
    else:
        res = time_average(snaps, inp, period, case["dt"])
    dtv = 0.002 if case["dt"] is None else case["dt"]
    if mode == "decimal":
        # floor(period/interval) for a period typed as a decimal multiple w of the interval.  The statement's formula is
        # crisp when every true-division order of evaluating it in double precision gives the intended w: then w is
        # demanded (floor DIVISION, exact on the doubles, yields w - 1 whenever the quotient of the doubles is a hair
        # below w).  Where some order gives w - 1, both are accepted.
        counts = _window_counts(case["period"], case["step"], dtv)
        allowed = {w} if counts == {w} else {w - 1, w}
    else:
        allowed = {w}
    w_obs, R = _check_window_result("", res, prop, allowed, single)
    require(np.array_equal(inp, prop), "time_average modified its input")
    tags = [mode, "complex" if np.iscomplexobj(prop) else "real", "w-odd" if w_obs % 2 else "w-even",
            f"w{min(w_obs, 5)}{'+' if w_obs >= 5 else ''}", f"rows{min(R, 4)}{'+' if R >= 4 else ''}",
            "t0-zero" if case["t0"] == 0 else "t0-offset", "dtype-" + prop.dtype.name, "layout-" + layout,
            "period-type-" + case.get("prepr", "float"), "timestep-np.int64" if case["npint"] else "timestep-int"]
    if mode == "decimal":
        tags.append("decimal-crisp" if len(allowed) == 1 else "decimal-ambiguous")
        if len(allowed) == 1 and int(case["period"] // (case["step"] * dtv)) != w:
            tags.append("decimal-crisp-floor-division-differs")
    if mode == "decimal" and w_obs != w:
        tags.append("decimal-rounded-down")
    if w_obs == T:
        tags.append("window-is-whole-trajectory")
    tags.append("range-" + case.get("range", "flat"))
    tags.append("T<=10" if T <= 10 else "T11-24" if T <= 24 else "T25-100" if T <= 100 else "T101-300")
    if case.get("again"):
        ag = case["again"]
        prop2 = (prop[::-1] * ag["scale"]).astype(prop.dtype)      # exact (scale is dyadic or small integer)
        if layout == "readonly":
            inp = inp.copy()
        inp[...] = prop2
        period2 = (ag["w"] + ag["frac"]) * (case["step"] * dtv)
        res2 = time_average(snaps, inp, period2) if case["dt"] is None else time_average(snaps, inp, period2, case["dt"])
        _check_window_result(" (second call, same objects, new contents and window)", res2, prop2, {ag["w"]}, single)
        tags.append("second-call")
    nontrivial = bool(w_obs >= 2 and R >= 2)
    return {"nontrivial": nontrivial, "tags": tags}


def describe_window(case):
    return {"T": int(case["prop"].shape[0]), "N": int(case["prop"].shape[1]), "w": case["w"], "mode": case["mode"],
            "dt": case["dt"], "step": case["step"], "period": case["period"], "dtype": str(case["prop"].dtype)}


FACETS = [
    Facet("spatial_average", spatial_st(), check_spatial, quick=1200, thorough=60000, describe=describe_spatial,
          shards_quick=2,
          rule="non-trivial = some particle has >= 1 neighbour and the averaged field differs from the input"),
    Facet("gaussian_blurring", gauss_st(), check_gauss, quick=2400, thorough=60000, describe=describe_gauss,
          shards_quick=6,
          rule="non-trivial = (unequal point numbers or 3D) and the cut-off includes some and excludes some (grid point, "
               "particle) pairs of a frame and some grid value is non-zero"),
    Facet("time_average", window_st(), check_window, quick=1600, thorough=80000, describe=describe_window,
          shards_quick=2, rule="non-trivial = window of >= 2 frames and >= 2 rows"),
    Facet("gaussian_large", gauss_st(big=True), check_gauss, quick=160, thorough=4000, describe=describe_gauss,
          shards_quick=4,
          rule="grids of real use: 2D 7..24 points per axis, 3D 4..9 (49..729 grid points, any remainder modulo 64), "
               "N 30..150 from a drawn seed; non-trivial as for gaussian_blurring"),
    Facet("deep_sizes_spatial", spatial_st(deep=True), check_spatial, quick=0, thorough=600, describe=describe_spatial,
          rule="thorough tier only: N 100..500, coordination numbers up to 90"),
    Facet("deep_sizes_gaussian", gauss_st(big=True, deep=True), check_gauss, quick=0, thorough=320,
          describe=describe_gauss, rule="thorough tier only: N 200..1500, grids up to 60 x 60 / 16 x 16 x 16"),
    Facet("deep_sizes_window", window_st(deep=True), check_window, quick=0, thorough=3000, describe=describe_window,
          rule="thorough tier only: T 25..300, N up to 300"),
]
