"""Shared Hypothesis strategies.  Every case is a plain picklable dict of numpy arrays / scalars;
`snapshots_from(case)` turns it into the library's Snapshots object at check time."""
from __future__ import annotations

import itertools

import numpy as np
from hypothesis import strategies as st
from hypothesis.extra import numpy as hnp

from .ref import geom

# ----------------------------------------------------------------------------- scalars


def fl(lo, hi, **kw):
    """Finite doubles in [lo, hi].  Subnormals are not generated (0.0 is): products of subnormal inputs underflow, so
    no relative tolerance is meaningful for them and none of the properties concerns underflow (a thorough run of C11
    had flagged 5e-324 vs 0.0 with a tolerance that had itself underflowed to 0)."""
    kw.setdefault("allow_subnormal", False)
    base = st.floats(min_value=lo, max_value=hi, allow_nan=False, allow_infinity=False, **kw)
    zero_excluded = (lo == 0 and kw.get("exclude_min")) or (hi == 0 and kw.get("exclude_max"))
    if lo <= 0.0 <= hi and not zero_excluded:
        # Hypothesis likes "nasty" floats such as 2.2e-308 or 1e-82.  As coordinates, field values or parameters they
        # are indistinguishable from 0 for every property, but their squares and fourth powers underflow on both
        # sides of a comparison (C17 gyration, seed 3: two points 1.3e-82 apart -> nan vs nan).  Snap them to 0.0.
        return base.map(lambda x: 0.0 if abs(x) < 1e-30 else x)
    return base


def nice_float(lo, hi):
    """Mixture: round decimals (shrink well, print exactly) and arbitrary doubles."""
    return st.one_of(
        st.integers(int(np.ceil(lo * 100)), int(np.floor(hi * 100))).map(lambda k: k / 100.0),
        fl(lo, hi),
    )


# ----------------------------------------------------------------------------- cells


@st.composite
def cell_st(draw, d, kind="any", lmin=1.0, lmax=30.0, origin="any"):
    """Cell: H rows a,b,c (LAMMPS lower-triangular), real origin `lo`.
    kind: 'ortho' | 'tri' | 'any'.  Tilts of either sign with |tilt| <= 1/2 edge."""
    if kind == "any":
        kind = draw(st.sampled_from(["ortho", "tri"]))
    L = np.array([draw(nice_float(lmin, lmax)) for _ in range(d)])
    H = np.diag(L)
    if kind == "tri":
        def tilt(edge):
            t = draw(st.one_of(st.just(0.0), nice_float(-0.5, 0.5)))
            return t * edge
        H[1, 0] = tilt(L[0])
        if d == 3:
            H[2, 0] = tilt(L[0])
            H[2, 1] = tilt(L[1])
        if not np.any(H - np.diag(L)):
            H[1, 0] = 0.25 * L[0] * draw(st.sampled_from([-1.0, 1.0]))
    if origin == "zero":
        ok = "zero"
    elif origin == "any":
        ok = draw(st.sampled_from(["zero", "centred", "arbitrary", "sumzero"]))
    else:
        ok = origin
    if ok == "zero":
        lo = np.zeros(d)
    elif ok == "centred":
        lo = -L / 2.0
    elif ok == "sumzero":
        # bounds (lo, hi) sum to zero over all entries without the box being centred on every axis
        lo = np.array([draw(nice_float(-20.0, 20.0)) for _ in range(d)])
        lo[-1] = -(np.sum(2 * lo[:-1] + L[:-1]) + L[-1]) / 2.0
    else:
        lo = np.array([draw(nice_float(-50.0, 50.0)) for _ in range(d)])
    return {"d": d, "kind": kind, "H": H, "lo": lo, "origin": ok}


def ppp_st(d, allow_open=True):
    if not allow_open:
        return st.just(np.ones(d, dtype=int))
    return st.one_of(st.just(np.ones(d, dtype=int)),
                     st.sampled_from([np.array(p, dtype=int) for p in itertools.product([0, 1], repeat=d)]))


# ----------------------------------------------------------------------------- particles


def frac_st(N, d):
    el = st.one_of(st.integers(0, 1023).map(lambda k: k / 1024.0), fl(0.0, 1.0, exclude_max=True))
    return hnp.arrays(np.float64, (N, d), elements=el, fill=st.nothing())


@st.composite
def types_st(draw, N, K):
    """Type ids exactly 1..K with every type present (the selectors assume it)."""
    assert N >= K
    rest = draw(st.lists(st.integers(1, K), min_size=N - K, max_size=N - K))
    t = list(range(1, K + 1)) + rest
    perm = draw(st.permutations(range(N)))
    return np.array([t[i] for i in perm], dtype=int)


_LATTICES_3D = {
    "sc": [(0, 0, 0)],
    "bcc": [(0, 0, 0), (.5, .5, .5)],
    "fcc": [(0, 0, 0), (.5, .5, 0), (.5, 0, .5), (0, .5, .5)],
    "diamond": [(0, 0, 0), (.5, .5, 0), (.5, 0, .5), (0, .5, .5),
                (.25, .25, .25), (.75, .75, .25), (.75, .25, .75), (.25, .75, .75)],
}
_LATTICES_2D = {
    "square": [(0, 0)],
    "centred": [(0, 0), (.5, .5)],
}


@st.composite
def frac_config_st(draw, d, nmin=2, nmax=40, kinds=("gas", "lattice", "cluster"), exact_lattice=True):
    """Fractional coordinates in [0,1)^d of one configuration.  Returns (frac, kind)."""
    kind = draw(st.sampled_from(list(kinds)))
    if kind == "lattice":
        table = _LATTICES_3D if d == 3 else _LATTICES_2D
        name = draw(st.sampled_from(sorted(table)))
        basis = np.array(table[name], dtype=float)
        # odd repeat counts keep exact half-cell ties away for the primitive lattices
        reps = [draw(st.integers(1, 3)) for _ in range(d)]
        cells = np.array(list(itertools.product(*[range(r) for r in reps])), dtype=float)
        f = (cells[:, None, :] + basis[None, :, :]).reshape(-1, d) / np.array(reps, dtype=float)
        if len(f) > nmax:
            f = f[:nmax]
        if len(f) < nmin:
            extra = draw(frac_st(nmin - len(f), d))
            f = np.vstack([f, extra])
        jit = draw(st.sampled_from([0.0, 1e-3, 1e-2] if exact_lattice else [1e-3, 1e-2]))
        if jit:
            noise = draw(hnp.arrays(np.float64, f.shape, elements=fl(-1.0, 1.0), fill=st.nothing()))
            f = (f + jit * noise) % 1.0
        return f, f"lattice-{name}" + ("-jit" if jit else "")
    N = draw(st.integers(nmin, nmax))
    if kind == "cluster":
        nc = draw(st.integers(1, 3))
        centres = draw(frac_st(nc, d))
        which = draw(st.lists(st.integers(0, nc - 1), min_size=N, max_size=N))
        width = draw(st.sampled_from([0.02, 0.05, 0.1]))
        noise = draw(hnp.arrays(np.float64, (N, d), elements=fl(-1.0, 1.0), fill=st.nothing()))
        return (centres[which] + width * noise) % 1.0, "cluster"
    return draw(frac_st(N, d)), "gas"


@st.composite
def config_st(draw, d=None, cell_kind="any", nmin=2, nmax=40, K=None, kmax=3, frames=(1, 1),
              kinds=("gas", "lattice", "cluster"), allow_open=True, outside=True, lmin=1.0, lmax=30.0,
              origin="any", exact_lattice=True):
    """A (multi-frame) configuration case.  Exact lattices (half-cell minimum-image ties) are only
    generated for orthogonal cells, where both tied images have the same length."""
    if d is None:
        d = draw(st.sampled_from([2, 3]))
    cell = draw(cell_st(d, cell_kind, lmin=lmin, lmax=lmax, origin=origin))
    K_ = K if K is not None else draw(st.integers(1, kmax))
    f0, kind = draw(frac_config_st(d, nmin=max(nmin, K_), nmax=nmax, kinds=kinds,
                                    exact_lattice=exact_lattice and cell["kind"] == "ortho"))
    N = len(f0)
    T = draw(st.integers(*frames))
    fr = [f0]
    for _ in range(T - 1):
        fr.append(draw(frac_st(N, d)))
    offs = np.zeros((N, d))
    if outside and draw(st.booleans()):
        offs = draw(hnp.arrays(np.int64, (N, d), elements=st.integers(-1, 1))).astype(float)
    ppp = draw(ppp_st(d, allow_open))
    if not np.all(ppp):
        offs = offs * ppp  # open axes: images are different points, stay inside
    frames_pos = [cell["lo"] + (f + offs) @ cell["H"] for f in fr]
    types = draw(types_st(N, K_))
    t0 = draw(st.integers(0, 10**6))
    dt = draw(st.integers(1, 5000))
    return {
        "d": d, "cell": cell, "pos": frames_pos, "types": types, "ppp": ppp, "K": K_,
        "kind": kind, "timesteps": [t0 + k * dt for k in range(T)], "outside": bool(np.any(offs)),
    }


# ----------------------------------------------------------------------------- library objects


def snapshot_from(cell, pos, types, timestep=0):
    from PyMatterSim.reader.reader_utils import SingleSnapshot

    H = np.array(cell["H"], dtype=float)
    lo = np.array(cell["lo"], dtype=float)
    d = H.shape[0]
    if cell["kind"] in ("tri", "general"):
        if cell["kind"] == "tri":
            bounds, _, real = geom.lammps_bounds(H, lo)
        else:
            # general cell (e.g. a reader-style triclinic cell after an axis permutation: P H P^T is no longer lower
            # triangular): real bounds from the diagonal, bounding box from the off-diagonal components of the
            # cell vectors (reduces to the LAMMPS formulas for a lower-triangular H)
            off = H - np.diag(np.diag(H))
            real = np.stack([lo, lo + np.diag(H)], axis=1)
            bounds = np.stack([lo + np.minimum(off, 0.0).sum(axis=0), lo + np.diag(H) + np.maximum(off, 0.0).sum(axis=0)],
                              axis=1)
        return SingleSnapshot(timestep=int(timestep), nparticle=len(pos), particle_type=np.array(types, dtype=int),
                              positions=np.array(pos, dtype=float), boxlength=np.diag(H).copy(),
                              boxbounds=bounds, realbounds=real, hmatrix=H.copy())
    L = np.diag(H).copy()
    return SingleSnapshot(timestep=int(timestep), nparticle=len(pos), particle_type=np.array(types, dtype=int),
                          positions=np.array(pos, dtype=float), boxlength=L,
                          boxbounds=np.stack([lo, lo + L], axis=1), realbounds=None, hmatrix=np.diag(L))


def snapshots_from(case):
    from PyMatterSim.reader.reader_utils import Snapshots

    snaps = [snapshot_from(case["cell"], p, case["types"], ts) for p, ts in zip(case["pos"], case["timesteps"])]
    return Snapshots(nsnapshots=len(snaps), snapshots=snaps)


def describe_config(case):
    return {
        "d": case["d"], "cell": case["cell"]["kind"], "origin": case["cell"]["origin"],
        "H": np.round(case["cell"]["H"], 4).tolist(), "N": int(len(case["types"])), "K": int(case["K"]),
        "frames": len(case["pos"]), "kind": case["kind"], "ppp": np.asarray(case["ppp"]).tolist(),
        "types": np.asarray(case["types"]).tolist()[:12], "pos0": np.round(case["pos"][0][:3], 4).tolist(),
    }
