"""Reference for the documented pair potentials of docs/hessian.md section I (no import of PyMatterSim).

Documented potentials (the ONLY thing taken from the docs; every derivative is obtained here by sympy):

    lennard_jones      s(r) = 4 eps [ (sig/r)^12 - (sig/r)^6 ]
    inverse_power_law  s(r) = A eps (sig/r)^n
    harmonic_hertz     s(r) = eps/alpha (1 - r/sig)^alpha

Documented cut-off term `s1rc`:  s'(r_c) when shifting is requested and 0 otherwise (LJ, IPL); for
harmonic/Hertz the docs define s'(r_c) = 0 unconditionally (true derivative only when r_c = sig).

Three evaluation routes:
  * `derivs(...)`      sympy-differentiated s, lambdified for mpmath, evaluated with `DPS` digits.  Also returns a
                       *condition scale* (sum of |additive terms|) so that tolerances can be relative to the size of
                       the terms and not to a cancelled result (LJ force vanishes at r = 2^(1/6) sig).
  * `fd_derivs(...)`   Richardson-extrapolated central differences of a separately hand-coded s(r) in mpmath
                       (independent of sympy's differentiation).
  * `numpy_fn(...)`    float64 numpy lambdas of the truncated(-and-force-shifted) pair energy phi and phi', for the
                       finite-difference oracle of the Hessian check (C11).
"""
from __future__ import annotations

import functools

import mpmath as mp
import sympy as sp

DPS = 40
MODELS = ("lennard_jones", "inverse_power_law", "harmonic_hertz")

r, eps, sig, rc, n, A, alpha = sp.symbols("r epsilon sigma r_c n A alpha", positive=True)
ARGS = (r, eps, sig, n, A, alpha)

S = {
    "lennard_jones": 4 * eps * ((sig / r) ** 12 - (sig / r) ** 6),
    "inverse_power_law": A * eps * (sig / r) ** n,
    "harmonic_hertz": eps / alpha * (1 - r / sig) ** alpha,
}


def documented(model):
    """sympy expression of the documented s(r) (symbols: r, epsilon, sigma, n, A, alpha)."""
    return S[model]


def _tidy(expr):
    # harmonic/Hertz: sympy differentiates u**a as a*u**a/u; simplify merges the powers so that the expression is
    # also finite at r = sigma (u = 0).
    return sp.simplify(expr)


def _abs_terms(expr):
    return sum(sp.Abs(t) for t in sp.Add.make_args(sp.expand(expr)))


@functools.lru_cache(maxsize=None)
def _compiled(model):
    s = S[model]
    d1 = _tidy(sp.diff(s, r))
    d2 = _tidy(sp.diff(s, r, 2))
    out = {"expr": (s, d1, d2)}
    for name, e in (("s", s), ("s1", d1), ("s2", d2)):
        out[name] = sp.lambdify(ARGS, e, "mpmath")
        out["scale_" + name] = sp.lambdify(ARGS, _abs_terms(e), "mpmath")
    return out


def symbolic(model):
    """(s, ds/dr, d2s/dr2) as sympy expressions."""
    return _compiled(model)["expr"]


def _mpf(x):
    if x is None:
        return mp.mpf(1)
    if isinstance(x, (int, mp.mpf)):
        return mp.mpf(x)
    return mp.mpf(float(x))  # exact: every double is representable


def derivs(model, r_, eps_, sig_, rc_, n_=None, A_=None, alpha_=None):
    """40-digit values of s, s', s'' at r and s, s' at r_c, plus condition scales.  Returns dict of mpf."""
    c = _compiled(model)
    with mp.workdps(DPS):
        p = (_mpf(eps_), _mpf(sig_), _mpf(n_), _mpf(A_), _mpf(alpha_))
        x, xc = _mpf(r_), _mpf(rc_)
        res = {}
        for k in ("s", "s1", "s2"):
            res[k] = c[k](x, *p)
            res["scale_" + k] = c["scale_" + k](x, *p)
        res["s_rc"] = c["s"](xc, *p)
        res["s1_rc"] = c["s1"](xc, *p)
        res["scale_s1_rc"] = c["scale_s1"](xc, *p)
        return res


def documented_s1rc(model, shift, ref):
    """The documented cut-off term given `ref = derivs(...)`: s'(r_c) if shifting (LJ, IPL), else 0; Hertz: 0."""
    if model == "harmonic_hertz" or not shift:
        return mp.mpf(0)
    return ref["s1_rc"]


# ----------------------------------------------------------------------------- hand-coded s (for finite differences)


def s_plain(model, x, e, sg, n_, A_, al):
    """s(r) written out directly in mpmath arithmetic (x, e, sg, ... are mpf)."""
    if model == "lennard_jones":
        q = sg / x
        return 4 * e * (q ** 12 - q ** 6)
    if model == "inverse_power_law":
        return A_ * e * mp.power(sg / x, n_)
    if model == "harmonic_hertz":
        return e / al * mp.power(1 - x / sg, al)
    raise ValueError(model)


def fd_derivs(model, r_, eps_, sig_, n_=None, A_=None, alpha_=None, rel_step=1e-5, beyond_contact=False):
    """Richardson-extrapolated central differences (error O(h^4)) of the hand-coded s at 40 digits.
    h = rel_step * distance to the nearest singular point of s (r = 0; for Hertz also r = sigma).
    Hertz with r > sigma: None, unless `beyond_contact` is set (round 3; the caller guarantees an integer alpha, for
    which (1 - r/sigma)^alpha is a polynomial and real on both sides of contact): then h = rel_step * min(r, r - sigma)."""
    with mp.workdps(DPS):
        x, e, sg = _mpf(r_), _mpf(eps_), _mpf(sig_)
        p = (e, sg, _mpf(n_), _mpf(A_), _mpf(alpha_))
        rho = x
        if model == "harmonic_hertz":
            rho = min(x, sg - x)
            if rho < 0 and beyond_contact:
                rho = min(x, x - sg)
        if rho <= 0:
            return None
        h = rho * mp.mpf(rel_step)

        def f(y):
            return s_plain(model, y, *p)

        def d1(hh):
            return (f(x + hh) - f(x - hh)) / (2 * hh)

        def d2(hh):
            return (f(x + hh) - 2 * f(x) + f(x - hh)) / (hh * hh)

        return (4 * d1(h / 2) - d1(h)) / 3, (4 * d2(h / 2) - d2(h)) / 3


# ----------------------------------------------------------------------------- pair energy actually differentiated by C11


def pair_energy_expr(model, shift):
    """phi(r): documented s truncated at r_c; when shifting: s(r) - s(r_c) - (r - r_c) * [documented s'(r_c)].
    For harmonic/Hertz the documented s'(r_c) is 0, so phi = s(r) - s(r_c)."""
    s = S[model]
    if not shift:
        return s
    s_c = s.subs(r, rc)
    phi = s - s_c
    if model != "harmonic_hertz":
        phi = phi - (r - rc) * sp.diff(s, r).subs(r, rc)
    return phi


NPARGS = (r, eps, sig, rc, n, A, alpha)


@functools.lru_cache(maxsize=None)
def numpy_fn(model, shift, order):
    """float64 numpy lambda f(r, eps, sig, r_c, n, A, alpha) of d^order phi / dr^order (order 0, 1 or 2)."""
    phi = pair_energy_expr(model, bool(shift))
    e = phi if order == 0 else _tidy(sp.diff(phi, r, order))
    return sp.lambdify(NPARGS, e, "numpy")


@functools.lru_cache(maxsize=None)
def mp_fn(model, shift, order):
    """mpmath lambda of d^order phi / dr^order."""
    phi = pair_energy_expr(model, bool(shift))
    e = phi if order == 0 else _tidy(sp.diff(phi, r, order))
    return sp.lambdify(NPARGS, e, "mpmath")
