"""Independent reference for the relaxation functions (property C06).  numpy only, no PyMatterSim.

Written from the property statement and docs/dynamics.md:

  displacement of particle j between an origin frame o and an end frame e
      u_j = r_j(e) - r_j(o)                       (minimum image of it when only wrapped coordinates exist)
      cage-relative:  u_j - (1/N_j) sum_{i in nb_o(j)} u_i      with the neighbour list of the ORIGIN frame
  per frame pair (selected particles S of the origin frame, n = |S|, d = dimension)
      F   = (1/(n d)) sum_{j in S} sum_axes cos(q_j u_j,axis),     q_j = qconst / sigma_j
      Q   = (1/n) #{ j in S : |u_j|^2 <  (a sigma_j)^2 }   (slow)      or  > (fast)
      m2  = (1/n) sum |u_j|^2 ,   m4 = (1/n) sum |u_j|^4
  row k of the linear result = average over all pairs (o, o+k), o = 0 .. T-1-k, of F, Q, m2;
      chi4 = n ( <Q^2> - <Q>^2 ),   alpha2 = d <m4> / ((d+2) <m2>^2) - 1,   t_k = k * interval * dt
  log variant: only o = 0, chi4 = 0, t_k = (ts_k - ts_0) dt.
  S4(q): for every origin o the structure factor |sum_{j in M_o} exp(-i q.r_j(o))|^2 / |M_o| of the mobile
      (slow or fast, and selected) subset M_o at lag m, averaged over wave vectors of equal |q| and over origins.

Threshold decisions are discontinuous, so every decision carries a margin: a particle whose squared
displacement lies within `rel` (relative) + the propagated coordinate error of the squared cut-off is
*ambiguous* and reported as such; callers compare Q with the interval [definite, definite + ambiguous].
"""
from __future__ import annotations

import itertools
from math import isqrt, pi, sqrt

import numpy as np

from . import geom


def alpha2_prefactor(d):
    """Gaussian value of <r^4>/<r^2>^2 in d dimensions is (d+2)/d, so alpha2 = d/(d+2) <r^4>/<r^2>^2 - 1."""
    return d / (d + 2.0)


def raw_displacement(pos_o, pos_e, H=None, ppp=None):
    """(vectors, tie).  With H: fractional-rounding minimum image on the periodic axes (contract of C02)."""
    raw = np.asarray(pos_e, dtype=float) - np.asarray(pos_o, dtype=float)
    if H is None:
        return raw, np.zeros(len(raw), dtype=bool)
    return geom.min_image(raw, H, ppp)


def cage_relative(vec, tie, nbrs):
    """u_j - mean of u over the neighbours of j.  nbrs: list (per particle) of lists of 0-based indices."""
    out = np.empty_like(vec)
    t = tie.copy()
    for j, nb in enumerate(nbrs):
        acc = np.zeros(vec.shape[1])
        for i in nb:
            acc = acc + vec[i]
            t[j] = t[j] or tie[i]
        out[j] = vec[j] - acc / float(len(nb))
    return out, t


def pair_quantities(vec, sigma, qconst, a, cal_type, sel=None, err=0.0, rel=1e-9):
    """Quantities of one frame pair for the selected particles."""
    if sel is not None:
        vec = vec[sel]
        sigma = sigma[sel]
    n, d = vec.shape
    q = qconst / sigma
    arg = q[:, None] * vec
    F = float(np.cos(arg).sum() / (n * d))
    d2 = (vec * vec).sum(axis=1)
    cut2 = (a * sigma) ** 2
    margin = rel * cut2 + 2.0 * np.sqrt(d2 * d) * err + d * err * err
    amb = np.abs(d2 - cut2) <= margin
    if rel == 0.0 and err == 0.0:
        amb = np.zeros(n, dtype=bool)
    if cal_type == "slow":
        definite = (d2 < cut2) & ~amb
    else:
        definite = (d2 > cut2) & ~amb
    return {"n": n, "F": F, "ndef": int(definite.sum()), "namb": int(amb.sum()), "definite": definite, "amb": amb,
            "m2": float(d2.sum() / n), "m4": float((d2 * d2).sum() / n), "d2max": float(d2.max()),
            "argmax": float(np.abs(arg).max()), "qmax": float(q.max())}


class Trajectory:
    """Displacements of a trajectory under one analysis mode.

    pos    : list of T arrays (N, d) -- the coordinates the dynamics are computed from
    H, ppp : give them only when the coordinates are wrapped (minimum image is applied), else None
    nbrs   : None, or list over frames of neighbour lists (only the origin frame's list is used)
    """

    def __init__(self, pos, H=None, ppp=None, nbrs=None):
        self.pos = [np.asarray(p, dtype=float) for p in pos]
        self.H, self.ppp, self.nbrs = H, ppp, nbrs
        self.T = len(self.pos)

    def pair(self, o, e):
        vec, tie = raw_displacement(self.pos[o], self.pos[e], self.H, self.ppp)
        if self.nbrs is not None:
            vec, tie = cage_relative(vec, tie, self.nbrs[o])
        return vec, tie


def _row(pairs, d, cal_type, err):
    """Combine the per-pair quantities of one lag into a result row (dict)."""
    cnt = len(pairs)
    F = sum(p["F"] for p in pairs) / cnt
    m2 = sum(p["m2"] for p in pairs) / cnt
    m4 = sum(p["m4"] for p in pairs) / cnt
    qlo = [p["ndef"] / p["n"] for p in pairs]
    qhi = [(p["ndef"] + p["namb"]) / p["n"] for p in pairs]
    namb = sum(p["namb"] for p in pairs)
    ns = {p["n"] for p in pairs}
    row = {"isf": F, "msd": m2, "Q_lo": sum(qlo) / cnt, "Q_hi": sum(qhi) / cnt, "namb": namb,
           "tie": any(p["tie"] for p in pairs), "count": cnt, "Qvaries": len(set(qlo)) > 1,
           "n_defined": len(ns) == 1}
    if namb == 0 and len(ns) == 1:
        q1 = sum(qlo) / cnt
        q2 = sum(x * x for x in qlo) / cnt
        row["chi4"] = ns.pop() * (q2 - q1 * q1)
    else:
        row["chi4"] = None
    dmax = sqrt(max(p["d2max"] for p in pairs))
    msd_atol = 2.0 * sqrt(d) * dmax * err + d * err * err
    row["msd_atol"] = msd_atol
    row["isf_atol"] = max(p["qmax"] for p in pairs) * err + 2e-15 * max(p["argmax"] for p in pairs) + 1e-12
    if m2 > 0.0 and m4 > 0.0:
        ratio = m4 / (m2 * m2)
        row["alpha2"] = alpha2_prefactor(d) * ratio - 1.0
        relerr = 2.0 * msd_atol / m2 + 2.0 * dmax * dmax * msd_atol / m4
        row["alpha2_atol"] = alpha2_prefactor(d) * ratio * relerr
        row["alpha2_ok"] = relerr < 1e-6
    else:
        row["alpha2"], row["alpha2_atol"], row["alpha2_ok"] = None, None, False
    return row


def relaxation(traj, sigma, qconst, a, cal_type, sel=None, log=False, err=0.0, rel=1e-9):
    """Rows k = 1 .. T-1.  sel: None | bool (T, N) selection of the origin frame (linear) | bool (N,) (log)."""
    T = traj.T
    d = traj.pos[0].shape[1]
    rows = []
    for k in range(1, T):
        origins = [0] if log else list(range(0, T - k))
        pairs = []
        for o in origins:
            vec, tie = traj.pair(o, o + k)
            s = None if sel is None else (np.asarray(sel) if log else np.asarray(sel)[o])
            p = pair_quantities(vec, sigma, qconst, a, cal_type, s, err=err, rel=rel)
            p["tie"] = bool(tie.any() if s is None else tie[s].any())
            pairs.append(p)
        row = _row(pairs, d, cal_type, err)
        if log:
            row["chi4"] = 0.0 if row["namb"] == 0 else None
        rows.append(row)
    return rows


def squared_ratios(traj, sigma, sel=None, log=False, lags=None):
    """All realised |u_j|^2 / sigma_j^2 of selected particles (used by generators to place the cut-off `a`
    inside a gap), as a list of 1-D arrays, one per frame pair, in (lag, origin) order."""
    out = []
    T = traj.T
    for k in (lags if lags is not None else range(1, T)):
        for o in ([0] if log else range(0, T - k)):
            vec, _ = traj.pair(o, o + k)
            r = (vec * vec).sum(axis=1) / sigma ** 2
            if sel is not None:
                r = r[np.asarray(sel) if log else np.asarray(sel)[o]]
            out.append(r)
    return out


def time_axis_linear(timesteps, dt):
    interval = timesteps[1] - timesteps[0]
    return np.array([k * interval * dt for k in range(1, len(timesteps))], dtype=float)


def time_axis_log(timesteps, dt):
    return np.array([(ts - timesteps[0]) * dt for ts in timesteps[1:]], dtype=float)


# ----------------------------------------------------------------------------- four-point structure factor


def default_vectors(d, numofq):
    """Non-zero integer vectors with components in the half-open range [-h, h), h = numofq // 2 and an
    integer norm (the library's default vector set; see ASSUMPTIONS of c06)."""
    h = int(numofq) // 2
    out = []
    for n in itertools.product(range(-h, h), repeat=d):
        s = sum(c * c for c in n)
        if s == 0 or isqrt(s) ** 2 != s:
            continue
        out.append(n)
    return np.array(out, dtype=float).reshape(-1, d)


def shells(qnorm):
    """Group wave vectors of equal |q| the way an 8-decimal rounding does.  Returns (groups, ambiguous):
    groups = list of index arrays in ascending |q|; ambiguous = True when two distinct |q| are closer than
    2e-8 (rounding may or may not merge them) or some |q| sits on an 8-decimal rounding boundary."""
    order = np.argsort(qnorm, kind="stable")
    qs = qnorm[order]
    groups, cur = [], [order[0]]
    amb = False
    for a_, b_, ib in zip(qs[:-1], qs[1:], order[1:]):
        gap = b_ - a_
        if gap <= 1e-11 * (1.0 + b_):
            cur.append(ib)
        else:
            if gap <= 2e-8:
                amb = True
            groups.append(np.array(cur))
            cur = [ib]
    groups.append(np.array(cur))
    frac = np.abs((qnorm * 1e8) % 1.0 - 0.5)
    if np.any(frac < 1e-4):
        amb = True
    return groups, amb


def subset_sq(pos, L, nvec, mask):
    """|sum_{j in mask} exp(-i q.r_j)|^2 / |mask| for every q = 2 pi n / L."""
    q = nvec * (2.0 * pi / np.asarray(L, dtype=float))[None, :]
    r = np.asarray(pos, dtype=float)[mask]
    phase = q @ r.T
    rho = np.exp(-1j * phase).sum(axis=1)
    return (rho.real ** 2 + rho.imag ** 2) / float(mask.sum())


def sq4(traj, sq_pos, L, sigma, a, cal_type, lag, numofq, sel=None, err=0.0, rel=1e-9):
    """Origin average of the mobile-subset structure factor at lag `lag` (in frames).
    Returns dict(q, Sq, ambiguous, empty, nsub, qshell_ambiguous)."""
    d = traj.pos[0].shape[1]
    nvec = default_vectors(d, numofq)
    qn = np.sqrt(((nvec * (2.0 * pi / np.asarray(L, dtype=float))[None, :]) ** 2).sum(axis=1))
    groups, qamb = shells(qn)
    acc = np.zeros(len(groups))
    namb, empty, nsub = 0, False, []
    origins = range(0, traj.T - lag)
    for o in origins:
        vec, tie = traj.pair(o, o + lag)
        p = pair_quantities(vec, sigma, 1.0, a, cal_type, None, err=err, rel=rel)
        mask = p["definite"].copy()
        unsure = p["amb"] | tie
        if sel is not None:
            s = np.asarray(sel)[o].astype(bool)
            mask &= s
            unsure &= s
        namb += int(unsure.sum())
        nsub.append(int(mask.sum()))
        if mask.sum() == 0:
            empty = True
            continue
        S = subset_sq(sq_pos[o], L, nvec, mask)
        acc += np.array([S[g].mean() for g in groups])
    return {"q": np.array([qn[g].mean() for g in groups]), "Sq": acc / len(origins), "namb": namb, "empty": empty,
            "nsub": nsub, "q_ambiguous": qamb, "nvec": len(nvec)}
