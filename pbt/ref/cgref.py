"""Independent references for C16 (coarse graining) and the neighbour-file writer used by C15/C16.

Written from the property statement and docs/utils.md (VII).  numpy only; no import of PyMatterSim.
"""
from __future__ import annotations

import itertools

import numpy as np

from . import geom

# ----------------------------------------------------------------------------- neighbour files


def neighbor_file_text(frames, order=None, style="plain"):
    """frames: list over frames of list over particles (0-based) of lists of 0-based neighbour ids.
    File format of docs/neighbors.md: one header line `id cn neighborlist` per frame, then one row per
    particle `id cn n1 n2 ...` with 1-based ids.  `order[f]` = row order (permutation of particle indices)."""
    out = []
    for f, lists in enumerate(frames):
        out.append("id     cn     neighborlist\n" if style != "tight" else "id cn neighborlist\n")
        rows = range(len(lists)) if order is None else order[f]
        for i in rows:
            nb = [int(j) + 1 for j in lists[i]]
            if style == "padded":
                out.append("%6d %4d " % (i + 1, len(nb)) + " ".join("%5d" % j for j in nb) + "\n")
            else:
                out.append(" ".join([str(i + 1), str(len(nb))] + [str(j) for j in nb]) + "\n")
    return "".join(out)


# ----------------------------------------------------------------------------- spatial average


def spatial_average(prop, frames, nmax=None):
    """Mean over the particle itself and its listed neighbours (the first `nmax` of them when the list is
    longer than the requested maximum), frame by frame."""
    prop = np.asarray(prop)
    out = np.empty_like(prop)
    for n in range(prop.shape[0]):
        for i in range(prop.shape[1]):
            nb = list(frames[n][i])
            if nmax is not None:
                nb = nb[:nmax]
            members = [i] + nb
            out[n, i] = sum(prop[n, j] for j in members) / len(members)
    return out


# ----------------------------------------------------------------------------- gaussian blurring


def grid_points(bounds, ngrids):
    """Full Cartesian grid, n_k equally spaced points from lo_k to hi_k inclusive, first axis slowest."""
    axes = [lo + (hi - lo) * np.arange(n) / (n - 1) if n > 1 else np.array([lo])
            for (lo, hi), n in zip(np.asarray(bounds, dtype=float), ngrids)]
    return np.array(list(itertools.product(*axes)), dtype=float)


def gaussian_weights(r, sigma):
    return np.exp(-0.5 * (r / sigma) ** 2) / (sigma * np.sqrt(2.0 * np.pi))


def gaussian_blur_frame(pos, H, ppp, grid, prop, sigma, cut, eps=1e-9):
    """Returns (values[G, ...], abs_values[G, ...], ambiguous[G], stats).
    ambiguous[g]: some particle lies within eps (relative) of the cut-off sphere around grid point g, or its
    minimum image is tied in a non-orthogonal cell (either image valid, distances differ)."""
    pos = np.asarray(pos, dtype=float)
    prop = np.asarray(prop)
    G = len(grid)
    vals = np.zeros((G,) + prop.shape[1:], dtype=prop.dtype)
    absv = np.zeros((G,) + prop.shape[1:], dtype=float)
    amb = np.zeros(G, dtype=bool)
    ortho = not np.any(H - np.diag(np.diag(H)))
    ninside = np.zeros(G, dtype=int)
    wrapped = False
    for g in range(G):
        dr = grid[g][None, :] - pos
        vec, tie = geom.min_image(dr, H, ppp)
        r = np.sqrt((vec * vec).sum(axis=1))
        near = np.abs(r - cut) <= eps * max(1.0, cut)
        if near.any() or (tie.any() and not ortho):
            amb[g] = True
        sel = r < cut
        ninside[g] = int(sel.sum())
        if sel.any() and np.any(np.abs(vec[sel] - dr[sel]) > 1e-9):
            wrapped = True
        w = gaussian_weights(r[sel], sigma)
        shape = (-1,) + (1,) * (prop.ndim - 1)
        vals[g] = (w.reshape(shape) * prop[sel]).sum(axis=0)
        absv[g] = (w.reshape(shape) * np.abs(prop[sel])).sum(axis=0)
    return vals, absv, amb, {"ninside": ninside, "wrapped": wrapped}


# ----------------------------------------------------------------------------- time average


def window_means(prop, w):
    """Row n = mean of frames n .. n+w-1, for every n that the caller asks for (all complete windows)."""
    prop = np.asarray(prop)
    T = prop.shape[0]
    return np.array([prop[n:n + w].sum(axis=0) / w for n in range(T - w + 1)])
