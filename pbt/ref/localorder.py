"""Independent references for the local order parameters of C17 (numpy only, no PyMatterSim).

Written from the definitions in the property statement / docs/orderings.md:

* pair entropy      S2_i = -(d-1) pi rho  T[ (g ln g - g + 1) r^(d-1) ]   (T = trapezoid rule on the bin centres)
                    g_i(r) = 1/(A_d(r) rho) sum_j N(r; r_ij, sigma[t_i, t_j]),  A_2 = 2 pi r, A_3 = 4 pi r^2
* tetrahedral order q_i  = 1 - 3/32 sum_{j<k in 4 nearest} (cos psi_jk + 1/3)^2
* nematic           Q_i  = (d u u^T - I)/2, coarse-grained (Q_i + sum_{j in nb(i)} Q_j)/(1 + n_i),
                    H_i  = sqrt(d/(d-1) tr Q^2),  S_i = 2 lambda_max(Q)
* gyration          eigenvalues l1 <= l2 (<= l3) of S = 1/N sum (r - c)(r - c)^T and the documented descriptors
"""
from __future__ import annotations

import itertools
import math

import numpy as np

from . import geom

AMBIG = 1e-9

# ----------------------------------------------------------------------------- pair entropy


def s2_bins(rdelta, ndelta):
    """Bin centres (k + 1/2) rdelta, k = 0 .. ndelta-1."""
    return (np.arange(ndelta, dtype=float) + 0.5) * float(rdelta)


def trapezoid(y, x):
    """Own trapezoid rule: sum of panel areas."""
    y = np.asarray(y, dtype=float)
    x = np.asarray(x, dtype=float)
    tot = 0.0
    for k in range(len(x) - 1):
        tot += 0.5 * (y[k] + y[k + 1]) * (x[k + 1] - x[k])
    return tot


def shell_area(r, d):
    return 2.0 * np.pi * r if d == 2 else 4.0 * np.pi * r * r


def particle_g(pos, types, H, ppp, sigmas, rdelta, ndelta):
    """Gaussian-smeared per-particle g.  Pairs with minimum-image distance >= r_max (last bin centre) do not
    contribute (convention of the implementation; stated in ASSUMPTIONS of the check).

    Returns (g[N, ndelta], ambiguous[N], bins, rho): ambiguous[i] is True when some r_ij lies within 1e-9
    (relative) of r_max, or a minimum-image tie exists for a pair whose either image could be inside r_max."""
    pos = np.asarray(pos, dtype=float)
    H = np.asarray(H, dtype=float)
    N, d = pos.shape
    r = s2_bins(rdelta, ndelta)
    rmax = r[-1]
    rho = N / geom.volume(H)
    ii, jj, vec, dist, tie = geom.pair_table(pos, H, ppp)
    g = np.zeros((N, ndelta))
    amb = np.zeros(N, dtype=bool)
    near = np.abs(dist - rmax) <= AMBIG * rmax
    # a half-cell tie selects one of two images: same length in an orthogonal cell, different in a tilted one
    ortho = not np.any(H - np.diag(np.diag(H)))
    amb_pairs = near.copy()
    if not ortho and tie.any():
        pm = np.ones(d, dtype=int) if ppp is None else np.asarray(ppp).astype(int)
        shifts = np.array(list(itertools.product(*[(-1, 0, 1) if p else (0,) for p in pm])), dtype=float) @ H
        for t in np.nonzero(tie)[0]:
            alt = np.sqrt(((vec[t][None, :] + shifts) ** 2).sum(axis=1)).min()
            if alt < rmax * (1 + AMBIG):  # some valid image could contribute
                amb_pairs[t] = True
    for i, j, rij, a in zip(ii, jj, dist, amb_pairs):
        if a:
            amb[i] = True
            continue
        if rij < rmax:
            s = float(sigmas[types[i] - 1][types[j] - 1])
            g[i] += np.exp(-0.5 * ((r - rij) / s) ** 2) / (s * math.sqrt(2.0 * math.pi))
    g /= shell_area(r, d)[None, :] * rho
    return g, amb, r, rho


def s2_from_g(g, r, rho, d):
    """-(d-1) pi rho * trapezoid[(g ln g - g + 1) r^(d-1)]; rows with g == 0 somewhere give nan."""
    out = np.full(len(g), np.nan)
    for i, gi in enumerate(g):
        if np.all(gi > 0):
            y = (gi * np.log(gi) - gi + 1.0) * r ** (d - 1)
            out[i] = -(d - 1) * math.pi * rho * trapezoid(y, r)
    return out


def s2_scale(r, rho, d):
    """Size of the prefactor times the integration weight (absolute error scale of S2)."""
    return (d - 1) * math.pi * rho * trapezoid(r ** (d - 1), r)


# ----------------------------------------------------------------------------- tetrahedral order


def tetra_from_vectors(v):
    """v: (4, 3) bond vectors."""
    u = v / np.sqrt((v * v).sum(axis=1))[:, None]
    tot = 0.0
    for j in range(3):
        for k in range(j + 1, 4):
            tot += (float(u[j] @ u[k]) + 1.0 / 3.0) ** 2
    return 1.0 - 3.0 / 32.0 * tot


def tetrahedral(pos, H, ppp):
    """Returns (q[N], ambiguous[N], nearest[N,4], d4[N], d5[N]).
    ambiguous: 4th/5th nearest within 1e-9 (relative), a coincident particle, or a minimum-image tie among
    the candidates that matter."""
    pos = np.asarray(pos, dtype=float)
    N = len(pos)
    q = np.full(N, np.nan)
    amb = np.zeros(N, dtype=bool)
    nn = np.zeros((N, 4), dtype=int)
    d4 = np.zeros(N)
    d5 = np.full(N, np.inf)
    Hm = np.asarray(H, dtype=float)
    scale = np.abs(Hm).max()
    pmask = np.ones(Hm.shape[0], dtype=int) if ppp is None else np.asarray(ppp).astype(int)
    for i in range(N):
        others = np.array([j for j in range(N) if j != i])
        vec, tie = geom.min_image(pos[others] - pos[i], H, ppp)
        dist = np.sqrt((vec * vec).sum(axis=1))
        order = np.argsort(dist, kind="stable")
        four = order[:4]
        nn[i] = others[four]
        d4[i] = dist[four[-1]]
        if N > 5:
            d5[i] = dist[order[4]]
            if d5[i] - d4[i] <= AMBIG * max(d5[i], 1e-300):
                amb[i] = True
        if dist[order[0]] <= AMBIG * scale:
            amb[i] = True
        # conditioning: a bond vector is a difference of coordinates, so it carries an absolute error of about
        # eps * max|coordinate|; its direction is then uncertain by eps * max|coordinate| / |bond|.  Directions enter
        # the order parameter through cosines asserted at 1e-9, so bonds shorter than 1e-5 of the coordinate magnitude
        # (never met in a physical configuration; a thorough run drew a cluster of near-coincident points and saw a
        # 1e-9 relative difference between two equally valid evaluations) are not asserted.
        if dist[four[0]] <= 1e-5 * max(scale, float(np.abs(pos).max())):
            amb[i] = True
        # ties: a tied pair vector has several valid images (different directions, in tilted cells also different
        # lengths); relevant when the shortest of them is, or could be, among the four nearest
        if tie.any():
            lim = d4[i] * (1 + 1e-6)
            shifts = np.array(list(itertools.product(*[(-1, 0, 1) if p else (0,) for p in pmask])), dtype=float) @ Hm
            for t in np.nonzero(tie)[0]:
                alt = np.sqrt(((vec[t][None, :] + shifts) ** 2).sum(axis=1)).min()
                if alt <= lim or t in four:
                    amb[i] = True
        q[i] = tetra_from_vectors(vec[four])
    return q, amb, nn, d4, d5


# ----------------------------------------------------------------------------- nematic


def nematic_q(u):
    """u: (F, N, d) orientation vectors -> (F, N, d, d) tensors (d u u^T - I)/2."""
    u = np.asarray(u, dtype=float)
    d = u.shape[-1]
    return (d * u[..., :, None] * u[..., None, :] - np.eye(d)) / 2.0


def nematic_cg(Q, nblists, nmax=None):
    """nblists[f][i] = list of 0-based neighbour indices of particle i in frame f (a neighbour listed twice counts
    twice: the sum runs over the N_i listed entries).  nmax: the neighbour-file reader keeps at most nmax entries per
    particle (the first nmax, contract of C05); None = keep all."""
    out = np.empty_like(Q)
    for f in range(Q.shape[0]):
        for i in range(Q.shape[1]):
            nb = list(nblists[f][i])
            if nmax is not None:
                nb = nb[:nmax]
            acc = Q[f, i].copy()
            for j in nb:
                acc = acc + Q[f, j]
            out[f, i] = acc / (1.0 + len(nb))
    return out


def nematic_trace(Q):
    d = Q.shape[-1]
    tr = np.einsum("fnab,fnba->fn", Q, Q)
    return np.sqrt(d / (d - 1.0) * tr)


def nematic_eig(Q):
    sym = 0.5 * (Q + np.swapaxes(Q, -1, -2))
    return 2.0 * np.linalg.eigvalsh(sym)[..., -1]


def neighbour_text(nblists, sep=" ", trail=False, header="id     cn     neighborlist"):
    """Neighbour-list file in the format of the library's writers: per frame a header line
    'id cn neighborlist', then 'id cn n1 n2 ...' with 1-based ids.  sep / trail / header vary the white space the way
    the library's own writers do (cal_neighbors: single blanks and a trailing blank; Nnearests: several blanks)."""
    lines = []
    for frame in nblists:
        lines.append(header)
        for i, nb in enumerate(frame):
            lines.append(sep.join([str(i + 1), str(len(nb))] + [str(j + 1) for j in nb]) + (sep if trail else ""))
    return "\n".join(lines) + "\n"


# ----------------------------------------------------------------------------- gyration


def gyration(pos):
    """Returns dict(lam (ascending), rg, asphericity, acylindricity, anisotropy, fractal, S)."""
    pos = np.asarray(pos, dtype=float)
    N, d = pos.shape
    c = np.array([math.fsum(pos[:, a]) for a in range(d)]) / N
    x = pos - c
    S = np.zeros((d, d))
    for a in range(d):
        for b in range(d):
            S[a, b] = math.fsum(x[:, a] * x[:, b]) / N
    lam = np.linalg.eigvalsh(0.5 * (S + S.T))
    tr = float(lam.sum())
    rg = math.sqrt(tr) if tr > 0 else 0.0
    out = {"lam": lam, "S": S, "rg": rg, "trace": tr,
           "acylindricity": float(lam[1] - lam[0]),
           "fractal": (math.log10(N) / math.log10(rg)) if rg > 0 and rg != 1.0 else float("nan")}
    if d == 3:
        b = 1.5 * lam[2] - 0.5 * tr
        out["asphericity"] = float(b)
        out["anisotropy"] = float((b * b + 0.75 * out["acylindricity"] ** 2) / (tr * tr)) if tr > 0 else float("nan")
    return out


def gyration_list(pos):
    g = gyration(pos)
    if np.asarray(pos).shape[1] == 3:
        return [g["rg"], g["asphericity"], g["acylindricity"], g["anisotropy"], g["fractal"]], g
    return [g["rg"], g["acylindricity"], g["fractal"]], g


# ----------------------------------------------------------------------------- constructions


def rotation_from_quaternion(qv):
    """Unit quaternion (w, x, y, z) -> proper rotation matrix."""
    w, x, y, z = np.asarray(qv, dtype=float) / np.linalg.norm(qv)
    return np.array([
        [1 - 2 * (y * y + z * z), 2 * (x * y - z * w), 2 * (x * z + y * w)],
        [2 * (x * y + z * w), 1 - 2 * (x * x + z * z), 2 * (y * z - x * w)],
        [2 * (x * z - y * w), 2 * (y * z + x * w), 1 - 2 * (x * x + y * y)],
    ])


TETRA_VERTICES = np.array([[1.0, 1.0, 1.0], [1.0, -1.0, -1.0], [-1.0, 1.0, -1.0], [-1.0, -1.0, 1.0]]) / math.sqrt(3.0)

DIAMOND_BASIS = np.array([(0, 0, 0), (.5, .5, 0), (.5, 0, .5), (0, .5, .5),
                          (.25, .25, .25), (.75, .75, .25), (.75, .25, .75), (.25, .75, .75)], dtype=float)


def diamond(reps):
    """Fractional coordinates (w.r.t. the supercell) of a diamond lattice of rx x ry x rz conventional cells
    (an int means the same count along every axis)."""
    rx, ry, rz = (reps, reps, reps) if np.isscalar(reps) else reps
    cells = np.array([(a, b, c) for a in range(rx) for b in range(ry) for c in range(rz)], dtype=float)
    return (cells[:, None, :] + DIAMOND_BASIS[None, :, :]).reshape(-1, 3) / np.array([rx, ry, rz], dtype=float)


# primitive (rhombohedral) cell of the diamond structure in LAMMPS lower-triangular form, for lattice constant 1:
# fcc primitive vectors of length 1/sqrt(2) at 60 degrees to each other; two-atom basis {0, (a1 + a2 + a3)/4}
DIAMOND_PRIMITIVE = np.array([[1.0, 0.0, 0.0],
                              [0.5, math.sqrt(3.0) / 2.0, 0.0],
                              [0.5, 1.0 / (2.0 * math.sqrt(3.0)), math.sqrt(2.0 / 3.0)]]) / math.sqrt(2.0)


def diamond_primitive(reps, negative_tilt=False):
    """(H, frac) of an n1 x n2 x n3 supercell of the two-atom primitive diamond cell (lattice constant 1): H is lower
    triangular with tilt factors xy = n2/(2 n1) lx, xz = n3/(2 n1) lx, yz = n3/(3 n2) ly; with negative_tilt the second
    primitive vector is replaced by a2 - a1 (the same lattice, xy < 0).  Every atom has four neighbours at sqrt(3)/4
    in perfect tetrahedral arrangement; for n >= 2 along every axis the bond vectors have fractional components of
    modulus <= 0.375, so they are their own minimum images under fractional rounding."""
    P = DIAMOND_PRIMITIVE.copy()
    tau = P.sum(axis=0) / 4.0
    if negative_tilt:
        P[1] = P[1] - P[0]
    n = np.array(reps, dtype=float)
    H = P * n[:, None]
    cells = np.array([(a, b, c) for a in range(reps[0]) for b in range(reps[1]) for c in range(reps[2])], dtype=float)
    cart = np.vstack([cells @ P, cells @ P + tau])
    frac = np.linalg.solve(H.T, cart.T).T
    return H, frac - np.floor(frac)
