"""Independent reference for the normalised time autocorrelation of a per-particle series (property C14).

Definition (property statement, docs/dynamics.md):
    P(t2, t1) = Re sum_i  A_i(t2) * conj(A_i(t1))          scalar: product; vector: dot product over components;
                                                          tensor: trace of the matrix product A_i(t2) . conj(A_i(t1))
    evenly spaced frames:    C(k) = mean over all origins t of P(t + k, t),  k = 0 .. T-1  (T - k origins)
    unevenly spaced frames:  C(k) = P(k, 0)                                   (first frame is the only origin)
    result(k) = C(k) / C(0),   t(k) = (timestep_k - timestep_0) * dt
"Evenly spaced" = all successive timestep differences are equal (timesteps are integers); one or two frames are
evenly spaced by that definition and both origin rules coincide for them.  A schedule that is even except for a
single gap (first, last, anywhere), a power-of-two schedule or a LAMMPS logarithmic-block schedule is uneven.
No import of PyMatterSim.
"""
from __future__ import annotations

import numpy as np


def evenly_spaced(timesteps):
    """True when all successive differences are equal (two frames count as even, one frame is degenerate:
    both definitions coincide)."""
    ts = [int(t) for t in timesteps]
    if len(ts) <= 2:
        return True
    first = ts[1] - ts[0]
    return all(b - a == first for a, b in zip(ts[:-1], ts[1:]))


def _product(later, earlier):
    """Particle-summed product of `later` with the conjugate of `earlier` (complex number)."""
    later = np.asarray(later)
    earlier = np.conjugate(np.asarray(earlier))
    if later.ndim == 1:
        return complex(np.sum(later * earlier))
    if later.ndim == 2:
        return complex(np.einsum("ia,ia->", later, earlier))
    if later.ndim == 3:
        return complex(np.einsum("ijk,ikj->", later, earlier))
    raise ValueError("rank not supported")


def _abs_product(later, earlier):
    """Sum of the absolute values of the terms of _product: the scale of its rounding error."""
    la = np.abs(np.asarray(later))
    ea = np.abs(np.asarray(earlier))
    if la.ndim == 3:
        return float(np.einsum("ijk,ikj->", la, ea))
    return float(np.sum(la * ea))


def unnormalised(series, even):
    """Returns (C, scale) with C[k] the un-normalised correlation at lag k and scale[k] the mean absolute sum."""
    A = np.asarray(series)
    T = A.shape[0]
    C = np.zeros(T)
    S = np.zeros(T)
    for k in range(T):
        origins = range(T - k) if even else [0]
        vals = [_product(A[t + k], A[t]).real for t in origins]
        C[k] = float(np.sum(vals)) / len(vals)
        S[k] = float(np.sum([_abs_product(A[t + k], A[t]) for t in origins])) / len(vals)
    return C, S


def lag_zero(series, even):
    """(C(0), S(0)): the un-normalised lag-zero value and the sum of the absolute values of its terms."""
    A = np.asarray(series)
    frames = range(A.shape[0]) if even else [0]
    c = float(np.sum([_product(A[t], A[t]).real for t in frames])) / len(frames)
    s = float(np.sum([_abs_product(A[t], A[t]) for t in frames])) / len(frames)
    return c, s


def well_conditioned(series, ratio=0.05):
    """True when the lag-zero value is bounded away from zero relative to the size of its terms under BOTH origin
    rules (so that the series can be combined with an even and with an uneven schedule)."""
    for even in (True, False):
        c, s = lag_zero(series, even)
        if not (s > 0.0 and abs(c) >= ratio * s):
            return False
    return True


def normalised(series, timesteps):
    """(want, C, S, even): want[k] = C[k] / C[0] under the origin rule selected by the spacing of `timesteps`."""
    even = evenly_spaced(timesteps)
    C, S = unnormalised(series, even)
    return C / C[0], C, S, even


def time_axis(timesteps, dt):
    ts = np.array([int(t) for t in timesteps], dtype=np.int64)
    return (ts - ts[0]).astype(float) * float(dt)


# ----------------------------------------------------------------------------- round 3: Gram-matrix formulation
# (added for the large-size classes of C14; the functions above are unchanged)


def _flat_pair(series):
    """(L, E): row t of L is the value at time t laid out as a vector, row t of E the conjugate of the value at time t
    laid out so that  L[t2] . E[t1] = sum_i A_i(t2) * conj(A_i(t1))  (tensors: trace of the matrix product, i.e. the
    conjugated factor enters with its last two axes exchanged)."""
    A = np.asarray(series)
    T = A.shape[0]
    if A.ndim not in (2, 3, 4):
        raise ValueError("rank not supported")
    L = A.reshape(T, -1)
    Ec = np.conjugate(A)
    if A.ndim == 4:
        Ec = np.swapaxes(Ec, 2, 3)
    return L, np.ascontiguousarray(Ec).reshape(T, -1)


def gram_unnormalised(series, even):
    """Same quantities as `unnormalised` (C[k], S[k]) from the T x T matrix of all frame-pair products
    P[t2, t1] = Re sum_i A_i(t2) conj(A_i(t1)): lag k of an evenly spaced series is the mean of the k-th sub-diagonal,
    of an unevenly spaced one the entry P[k, 0].  One matrix product instead of T^2/2 einsum calls."""
    L, E = _flat_pair(series)
    T = L.shape[0]
    P = np.real(L @ E.T)
    Pa = np.abs(L) @ np.abs(E).T
    C = np.zeros(T)
    S = np.zeros(T)
    for k in range(T):
        if even:
            C[k] = float(np.trace(P, offset=-k)) / (T - k)
            S[k] = float(np.trace(Pa, offset=-k)) / (T - k)
        else:
            C[k] = float(P[k, 0])
            S[k] = float(Pa[k, 0])
    return C, S
