"""Independent reference for C05 (neighbour lists and their file format).  numpy / stdlib only.

Written from the property statement and docs/neighbors.md:
  * minimum-image distance = contract of C02 (fractional rounding), with *intervals* where a fractional
    component sits on a half-cell tie (either image is a valid answer, so the distance may be either value);
  * file format "id cn neighborlist": one header line per frame, then one row per particle
    `id cn e_1 ... e_cn`, frames follow each other without gap;
  * reader model: row of particle id k -> index k-1; [min(cn,Nmax), first min(cn,Nmax) entries, 0 padding],
    width 1 + min(max cn, Nmax); neighbour lists are shifted to zero-based integers, anything else verbatim floats.
Also: exact (rational / integer) arithmetic for the crisp inclusive-boundary constructions.
"""
from __future__ import annotations

import itertools
from fractions import Fraction

import numpy as np

TIE_EPS = 1e-9


class FormatError(ValueError):
    """The text is not a well-formed 'id cn <list>' file."""


# ----------------------------------------------------------------------------- float reference (intervals)


def distance_intervals(pos, H, ppp, block=256):
    """dlo, dhi, tie : (N,N) arrays for the ordered pair (i,j), vector r_j - r_i.
    dlo == dhi unless some periodic fractional component of the pair lies within TIE_EPS of +-1/2; then the
    interval spans the lengths of all the tied images.  Rows are processed in blocks (memory for N ~ 1000)."""
    pos = np.asarray(pos, dtype=float)
    H = np.asarray(H, dtype=float)
    N, d = pos.shape
    per = np.asarray(ppp, dtype=float) > 0
    dlo = np.empty((N, N))
    dhi = np.empty((N, N))
    tie_any = np.zeros((N, N), dtype=bool)
    for i0 in range(0, N, block):
        i1 = min(N, i0 + block)
        R = (pos[None, :, :] - pos[i0:i1, None, :]).reshape(-1, d)
        f = np.linalg.solve(H.T, R.T).T
        n = np.where(per[None, :], np.floor(f + 0.5), 0.0)
        r = f - n
        tie = (np.abs(np.abs(r) - 0.5) < TIE_EPS) & per[None, :]
        v = r @ H
        dist = np.sqrt((v * v).sum(axis=1))
        lo = dist.copy()
        hi = dist.copy()
        for q in np.nonzero(tie.any(axis=1))[0]:
            axes = np.nonzero(tie[q])[0]
            cands = []
            for choice in itertools.product((0, 1), repeat=len(axes)):
                rr = r[q].copy()
                for a, c in zip(axes, choice):
                    if c:
                        rr[a] -= np.sign(rr[a])
                vv = rr @ H
                cands.append(float(np.sqrt(vv @ vv)))
            lo[q] = min(cands)
            hi[q] = max(cands)
        dlo[i0:i1] = lo.reshape(i1 - i0, N)
        dhi[i0:i1] = hi.reshape(i1 - i0, N)
        tie_any[i0:i1] = tie.any(axis=1).reshape(i1 - i0, N)
    return dlo, dhi, tie_any


def cutoff_classes(dlo, dhi, rc, tol):
    """rc scalar or (N,N) with rc[i,j] = cut-off that centre i applies to candidate j (boundary inclusive).
    Returns (definitely_in, definitely_out); everything else (off-diagonal) is ambiguous."""
    N = dlo.shape[0]
    rc = np.broadcast_to(np.asarray(rc, dtype=float), (N, N))
    off = ~np.eye(N, dtype=bool)
    return (dhi <= rc - tol) & off, ((dlo > rc + tol) | ~off)


def order_ok(dlo_i, dhi_i, listed, tol):
    """listed (0-based) is in non-decreasing distance order, up to tol / tie intervals.  Returns the first bad
    position or -1."""
    if len(listed) < 2:
        return -1
    idx = np.asarray(listed, dtype=np.intp)
    bad = np.nonzero(dlo_i[idx[:-1]] > dhi_i[idx[1:]] + tol)[0]
    return int(bad[0]) if len(bad) else -1


def nearest_ok(dlo_i, dhi_i, i, listed, tol):
    """The listed set can be the len(listed) closest others: no unlisted other particle is definitely closer than a
    listed one.  Returns None or (listed j, unlisted k) witnessing the failure."""
    N = len(dlo_i)
    lis = np.zeros(N, dtype=bool)
    lis[list(listed)] = True
    un = ~lis
    un[i] = False
    if not un.any() or not lis.any():
        return None
    jmax = int(np.nonzero(lis)[0][np.argmax(dlo_i[lis])])
    kmin = int(np.nonzero(un)[0][np.argmin(dhi_i[un])])
    if dlo_i[jmax] > dhi_i[kmin] + tol:
        return jmax, kmin
    return None


def gap_points(mats, rmax, tol):
    """Candidate regions for a cut-off: list of open intervals (lo, hi) inside (0, rmax) that contain no pair distance
    of any frame and are wider than 4*tol ('margin around ties').  mats = [(dlo, dhi), ...] one pair per frame."""
    vals = []
    for dlo, dhi in mats:
        off = ~np.eye(dlo.shape[0], dtype=bool)
        vals += [dlo[off], dhi[off]]
    vals = np.unique(np.concatenate(vals))
    vals = vals[vals < rmax]
    edges = np.concatenate([[0.0], vals, [rmax]])
    return [(float(a), float(b)) for a, b in zip(edges[:-1], edges[1:]) if b - a > 4 * tol]


# ----------------------------------------------------------------------------- exact reference (crisp cases)


def exact_d2_intervals(pos, H, ppp):
    """Integer positions / integer lower-triangular H.  Returns d2lo, d2hi as (N,N) object arrays of Fractions
    (squared minimum-image distance under fractional rounding; interval on exact half-cell ties)."""
    pos = [[int(x) for x in p] for p in np.asarray(pos)]
    Hm = [[int(x) for x in row] for row in np.asarray(H)]
    d = len(Hm)
    N = len(pos)
    per = [bool(p) for p in np.asarray(ppp)]
    half = Fraction(1, 2)
    d2lo = np.empty((N, N), dtype=object)
    d2hi = np.empty((N, N), dtype=object)
    for i in range(N):
        for j in range(N):
            delta = [Fraction(pos[j][a] - pos[i][a]) for a in range(d)]
            # solve f . H = delta for lower-triangular H (rows are cell vectors): last component first
            f = [Fraction(0)] * d
            for a in range(d - 1, -1, -1):
                s = delta[a] - sum(f[b] * Hm[b][a] for b in range(a + 1, d))
                f[a] = s / Hm[a][a]
            options = []
            for a in range(d):
                if not per[a]:
                    options.append([f[a]])
                    continue
                fl = f[a].numerator // f[a].denominator  # floor
                r = f[a] - fl  # in [0,1)
                if r == half:
                    options.append([half, -half])
                elif r > half:
                    options.append([r - 1])
                else:
                    options.append([r])
            vals = []
            for rr in itertools.product(*options):
                v = [sum(rr[b] * Hm[b][a] for b in range(d)) for a in range(d)]
                vals.append(sum(x * x for x in v))
            d2lo[i, j] = min(vals)
            d2hi[i, j] = max(vals)
    return d2lo, d2hi


def integer_vectors_by_norm(d, cmax, rmax):
    """{r: [non-negative integer vectors of dimension d with Euclidean norm exactly r]} for r = 1..rmax."""
    out = {}
    for v in itertools.product(range(cmax + 1), repeat=d):
        s = sum(x * x for x in v)
        if s == 0:
            continue
        r = int(round(s ** 0.5))
        if r * r == s and r <= rmax:
            out.setdefault(r, []).append(tuple(v))
    return out


# ----------------------------------------------------------------------------- the file format


def parse_list_file(text, nparticle):
    """Own parser.  Returns a list of frames; frame = {"header": [tokens], "rows": [(id, cn, [tokens...]), ...]}
    with rows in file order.  Raises FormatError for anything that is not header + nparticle rows, repeated."""
    if text and not text.endswith("\n"):
        raise FormatError("file does not end with a newline")
    lines = text.split("\n")[:-1] if text else []
    per = nparticle + 1
    if len(lines) % per != 0:
        raise FormatError(f"{len(lines)} lines is not a multiple of 1 + nparticle = {per}")
    frames = []
    for k in range(len(lines) // per):
        head = lines[k * per].split()
        if len(head) != 3 or head[0] != "id" or head[1] != "cn":
            raise FormatError(f"frame {k}: header line {lines[k * per]!r} is not 'id cn <name>'")
        rows = []
        for ln in lines[k * per + 1:(k + 1) * per]:
            tok = ln.split()
            if len(tok) < 2:
                raise FormatError(f"frame {k}: row {ln!r} has fewer than two fields")
            try:
                pid, cn = int(tok[0]), int(tok[1])
            except ValueError:
                raise FormatError(f"frame {k}: row {ln!r} does not start with two integers")
            rows.append((pid, cn, tok[2:]))
        frames.append({"header": head, "rows": rows})
    return frames


def encode_list_file(frames, style):
    """Own writer for synthetic files.  frames = [{"header": str, "order": [ids in file order],
    "rows": {id: [entry strings]}}]; style = {"lead": str, "sep": str, "trail": str} plus optionally
    "eol" (line terminator, default newline; carriage return + newline for files that went through Windows),
    "tail" (text after the last frame, e.g. blank lines) and "final_newline" (False: the last row is not terminated;
    only honoured when the tail is empty)."""
    out = []
    lead, sep, trail = style["lead"], style["sep"], style["trail"]
    eol = style.get("eol", "\n")
    for fr in frames:
        out.append(fr["header"] + eol)
        for pid in fr["order"]:
            ent = fr["rows"][pid]
            out.append(lead + sep.join([str(pid), str(len(ent))] + list(ent)) + trail + eol)
    text = "".join(out)
    tail = style.get("tail", "")
    if not tail and not style.get("final_newline", True) and text.endswith(eol):
        text = text[:-len(eol)]
    return text + tail


def frame_offsets(text, nparticle, nframes=None):
    """Character offset of the start of every frame (plus the end of the last frame) in `text` as delivered by the
    file object (lines end with a newline character; the last line may be unterminated; text after the last of the
    `nframes` frames, e.g. blank lines, belongs to no frame)."""
    per = nparticle + 1
    offs = [0]
    pos = 0
    count = 0
    lines = text.split("\n")
    if lines and lines[-1] == "":
        lines = lines[:-1]
        last_terminated = True
    else:
        last_terminated = False
    for k, ln in enumerate(lines):
        pos += len(ln) + (1 if (k < len(lines) - 1 or last_terminated) else 0)
        count += 1
        if count % per == 0:
            offs.append(pos)
        if nframes is not None and len(offs) == nframes + 1:
            break
    return offs


def reader_model(rows, nparticle, nmax, is_neighbor):
    """Expected return of one read: rows = {id: [entry tokens]} (ids 1..nparticle)."""
    cns = {pid: len(e) for pid, e in rows.items()}
    width = 1 + min(max(cns.values()), nmax)
    out = np.zeros((nparticle, width), dtype=np.int64 if is_neighbor else np.float64)
    for pid, ent in rows.items():
        m = min(len(ent), nmax)
        out[pid - 1, 0] = m
        if is_neighbor:
            out[pid - 1, 1:1 + m] = [int(t) - 1 for t in ent[:m]]
        else:
            out[pid - 1, 1:1 + m] = [float(t) for t in ent[:m]]
    return out
