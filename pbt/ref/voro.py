"""Independent periodic Voronoi reference built on scipy.spatial (Qhull): cell volumes, neighbour multisets
and bond weights (edge length in 2D, face area in 3D) of an orthogonal periodic box.  No PyMatterSim, no freud."""
from __future__ import annotations

import itertools

import numpy as np
from scipy.spatial import ConvexHull, Voronoi


def _polygon_area_3d(pts, normal):
    """Area of a planar convex polygon given unordered 3D vertices and the plane normal."""
    n = normal / np.linalg.norm(normal)
    c = pts.mean(axis=0)
    a = np.cross(n, [1.0, 0.0, 0.0])
    if np.linalg.norm(a) < 0.5:
        a = np.cross(n, [0.0, 1.0, 0.0])
    a /= np.linalg.norm(a)
    b = np.cross(n, a)
    u = (pts - c) @ a
    v = (pts - c) @ b
    order = np.argsort(np.arctan2(v, u))
    u, v = u[order], v[order]
    return 0.5 * abs(np.dot(u, np.roll(v, -1)) - np.dot(v, np.roll(u, -1)))


def periodic_voronoi(pos, L, bonds=True):
    """pos (N,d) anywhere, L (d,) box edge lengths (fully periodic).
    Returns (volumes[N], bonds) with bonds = list over i of list of (j, weight), one entry per Voronoi facet
    of cell i (so repeated j and j == i are possible in small systems); bonds=False skips the facets (None)."""
    pos = np.asarray(pos, dtype=float)
    L = np.asarray(L, dtype=float)
    N, d = pos.shape
    p = pos - np.floor(pos / L) * L
    imgs = np.array(list(itertools.product([0, -1, 1], repeat=d)), dtype=float) * L  # central image first
    allp = (p[None, :, :] + imgs[:, None, :]).reshape(-1, d)
    vor = Voronoi(allp)
    volumes = np.zeros(N)
    for i in range(N):
        reg = vor.regions[vor.point_region[i]]
        if -1 in reg or len(reg) == 0:
            raise ValueError("unbounded central cell: system too small for the 3^d image construction")
        volumes[i] = ConvexHull(vor.vertices[reg]).volume
    if not bonds:
        return volumes, None
    bonds = [[] for _ in range(N)]
    for (a, b), rv in zip(vor.ridge_points, vor.ridge_vertices):
        if a >= N and b >= N:
            continue
        if -1 in rv:
            raise ValueError("unbounded ridge at a central cell")
        verts = vor.vertices[rv]
        if d == 2:
            w = float(np.linalg.norm(verts[0] - verts[1]))
        else:
            w = float(_polygon_area_3d(verts, allp[b] - allp[a]))
        if a < N:
            bonds[a].append((int(b % N), w))
        if b < N:
            bonds[b].append((int(a % N), w))
    return volumes, bonds
