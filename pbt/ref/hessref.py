"""Independent reference for the Hessian of a truncated pair-potential energy (no import of PyMatterSim).

Energy (the specification, written from docs/hessian.md + the property statement):

    U(x) = sum over pairs i<j with |x_i - x_j|_min-image <= r_c(t_i,t_j) of  phi_{t_i t_j}(r_ij)
    phi(r) = s(r)                                               shifting off
    phi(r) = s(r) - s(r_c) - (r - r_c) * [documented s'(r_c)]   shifting on  (force-shifted; Hertz: s'(r_c) := 0)

    Hessian  K = d2U / dx_i dx_j ,   dynamical matrix  D = M^(-1/2) K M^(-1/2)   (index = particle * d + axis)

Routes:
  * `analytic`          phi', phi'' obtained by sympy from phi (pbt/ref/potentials.py), evaluated with 40-digit mpmath
                        on 40-digit pair vectors; block  phi'' u u^T + phi'/r (1 - u u^T); per-entry tolerance matrix.
  * `fd_hessian`        central differences (float64) of the gradient  dU/dx_i = sum_j phi'(r_ij) u_ij .
  * `energy_second_difference`  four-point second differences of U itself (hand-coded s(r), 60-digit mpmath).
The interacting pair list and the lattice image of every pair are fixed at the configuration (no pair is within 1e-6
of its cut-off, so the list is locally constant and U is smooth there).
"""
from __future__ import annotations

import mpmath as mp
import numpy as np

from . import geom
from . import potentials as P

EPS = 2.0 ** -52


def pair_geometry(pos, H, ppp):
    """All pairs i<j: (i, j, integer image shift n, float vector v = x_i - x_j - n.H, distance)."""
    pos = np.asarray(pos, dtype=float)
    H = np.asarray(H, dtype=float)
    N = len(pos)
    ii, jj = np.triu_indices(N, 1)
    dv = pos[ii] - pos[jj]
    f = geom.frac_coords(dv, H)
    nsh = np.floor(f + 0.5) * np.asarray(ppp, dtype=float)
    v = dv - nsh @ H
    return ii, jj, nsh.astype(int), v, np.sqrt((v * v).sum(axis=1))


class Params:
    """Pair parameters indexed by type (0-based matrices), model parameters, masses per type."""

    def __init__(self, model, shift, eps, sig, rc, n, A, alpha, masses):
        self.model, self.shift = model, bool(shift)
        self.eps, self.sig, self.rc = (np.asarray(a, dtype=float) for a in (eps, sig, rc))
        self.n, self.A, self.alpha = n, A, alpha
        self.masses = np.asarray(masses, dtype=float)

    def mp_args(self, a, b):
        return (P._mpf(self.eps[a, b]), P._mpf(self.sig[a, b]), P._mpf(self.rc[a, b]),
                P._mpf(self.n), P._mpf(self.A), P._mpf(self.alpha))


class Reference:
    pass


def analytic(pos, H, ppp, types, par, rel=1e-10):
    """Reference dynamical matrix D (float64 view of a 40-digit evaluation) + elementwise tolerance matrix T.

    T accounts for (i) float64 evaluation of the closed forms in the code under test: `rel` x (sum of |terms|),
    (ii) rounding of the pair vector computed from float64 positions: the pair distance may be off by
    delta = 64 eps (max|x| + max|H|); the reference is re-evaluated at r +- delta and the variation is allowed."""
    pos = np.asarray(pos, dtype=float)
    H = np.asarray(H, dtype=float)
    N, d = pos.shape
    t0 = np.asarray(types, dtype=int) - 1
    ii, jj, nsh, v, r = pair_geometry(pos, H, ppp)
    rcp = par.rc[t0[ii], t0[jj]]
    inside = r <= rcp
    delta = 64 * EPS * (np.abs(pos).max() + np.abs(H).max())
    Kmat = np.zeros((d * N, d * N))
    T = np.zeros((d * N, d * N))
    minv = 1.0 / par.masses[t0]
    f1 = P.mp_fn(par.model, par.shift, 1)
    f2 = P.mp_fn(par.model, par.shift, 2)
    eye = np.eye(d)
    mags = []
    with mp.workdps(P.DPS):
        dm = mp.mpf(delta)
        for k in np.nonzero(inside)[0]:
            i, j = int(ii[k]), int(jj[k])
            a, b = int(t0[i]), int(t0[j])
            vm = [mp.mpf(pos[i, c]) - mp.mpf(pos[j, c]) - sum(int(nsh[k, m]) * mp.mpf(H[m, c]) for m in range(d))
                  for c in range(d)]
            rm = mp.sqrt(sum(x * x for x in vm))
            e_, s_, c_, n_, A_, al_ = par.mp_args(a, b)
            args = (e_, s_, c_, n_, A_, al_)
            p1, p2 = f1(rm, *args), f2(rm, *args)
            u = np.array([float(x / rm) for x in vm])
            uu = np.outer(u, u)
            B = float(p2) * uu + float(p1 / rm) * (eye - uu)
            sc = P.derivs(par.model, rm, par.eps[a, b], par.sig[a, b], par.rc[a, b], par.n, par.A, par.alpha)
            mag = sc["scale_s2"] + (sc["scale_s1"] + (sc["scale_s1_rc"] if (par.shift and par.model != "harmonic_hertz")
                                                     else 0)) / rm
            lo, hi = rm - dm, rm + dm
            slack = abs(f2(hi, *args) - f2(lo, *args)) + abs(f1(hi, *args) - f1(lo, *args)) / rm \
                + (abs(p2) + abs(p1) / rm) * 4 * dm / rm
            tol = float(rel * mag + slack)
            mags.append(float(mag) * float(np.sqrt(minv[i] * minv[j])))
            si, sj = slice(i * d, i * d + d), slice(j * d, j * d + d)
            Kmat[si, si] += B
            Kmat[sj, sj] += B
            Kmat[si, sj] -= B
            Kmat[sj, si] -= B
            T[si, si] += tol * minv[i]
            T[sj, sj] += tol * minv[j]
            w = tol * np.sqrt(minv[i] * minv[j])
            T[si, sj] += w
            T[sj, si] += w
    w = np.repeat(np.sqrt(minv), d)
    ref = Reference()
    ref.D = Kmat * w[:, None] * w[None, :]
    ref.K = Kmat
    ref.T = T
    ref.pairs = (ii[inside], jj[inside], nsh[inside])
    ref.r_in = r[inside]
    ref.r_all, ref.rc_all, ref.ii, ref.jj = r, rcp, ii, jj
    ref.coord = np.bincount(np.concatenate([ii[inside], jj[inside]]), minlength=N)
    ref.scale = max(mags) if mags else 0.0
    ref.sqrtm = 1.0 / w
    ref.delta = delta
    return ref


# ----------------------------------------------------------------------------- finite differences of the gradient


def gradient_fn(ref, H, types, par, d):
    """x (N,d) -> dU/dx flattened, float64, pair list and images frozen."""
    i, j, nsh = ref.pairs
    t0 = np.asarray(types, dtype=int) - 1
    a, b = t0[i], t0[j]
    e_, s_, c_ = par.eps[a, b], par.sig[a, b], par.rc[a, b]
    shiftvec = nsh.astype(float) @ np.asarray(H, dtype=float)
    f1 = P.numpy_fn(par.model, par.shift, 1)
    n_, A_, al_ = float(par.n), float(par.A), float(par.alpha)

    def g(x):
        v = x[i] - x[j] - shiftvec
        rr = np.sqrt((v * v).sum(axis=1))
        p1 = np.asarray(f1(rr, e_, s_, c_, n_, A_, al_), dtype=float) * np.ones_like(rr)
        fv = (p1 / rr)[:, None] * v
        G = np.zeros_like(x)
        np.add.at(G, i, fv)
        np.add.at(G, j, -fv)
        return G.ravel()

    return g


def fd_hessian(g, x, h):
    x = np.asarray(x, dtype=float)
    N, d = x.shape
    Kfd = np.zeros((N * d, N * d))
    for k in range(N * d):
        xp, xm = x.copy(), x.copy()
        xp.flat[k] += h
        xm.flat[k] -= h
        Kfd[:, k] = (g(xp) - g(xm)) / (xp.flat[k] - xm.flat[k])
    return Kfd


# ----------------------------------------------------------------------------- second differences of the energy


def energy_second_difference(ref, pos, H, types, par, p, q, rel_h=1e-12, dps=60):
    """d2U / dx_p dx_q (p, q flat coordinate indices) by four-point central differences of U, U built from the
    hand-coded s(r) of potentials.s_plain in `dps`-digit arithmetic.  Only pairs touching the moved particles are
    summed (the others cancel exactly)."""
    pos = np.asarray(pos, dtype=float)
    N, d = pos.shape
    ip, cp = divmod(int(p), d)
    iq, cq = divmod(int(q), d)
    i, j, nsh = ref.pairs
    t0 = np.asarray(types, dtype=int) - 1
    sel = [k for k in range(len(i)) if i[k] in (ip, iq) or j[k] in (ip, iq)]
    with mp.workdps(dps):
        h = mp.mpf(rel_h) * P._mpf(par.sig.min())
        Hm = [[mp.mpf(H[m][c]) for c in range(d)] for m in range(d)]
        consts = {}
        for k in sel:
            a, b = int(t0[i[k]]), int(t0[j[k]])
            if (a, b) not in consts:
                e_, s_, c_, n_, A_, al_ = par.mp_args(a, b)
                src = P.s_plain(par.model, c_, e_, s_, n_, A_, al_)
                slope = mp.mpf(0)
                if par.shift and par.model != "harmonic_hertz":
                    slope = P.derivs(par.model, c_, par.eps[a, b], par.sig[a, b], par.rc[a, b],
                                     par.n, par.A, par.alpha)["s1_rc"]
                consts[(a, b)] = (e_, s_, c_, n_, A_, al_, src if par.shift else mp.mpf(0), slope)

        def U(dp, dq):
            tot = mp.mpf(0)
            for k in sel:
                a, b = int(t0[i[k]]), int(t0[j[k]])
                e_, s_, c_, n_, A_, al_, src, slope = consts[(a, b)]
                vv = []
                for c in range(d):
                    xi, xj = mp.mpf(pos[i[k], c]), mp.mpf(pos[j[k], c])
                    for (pi, pc, dd) in ((ip, cp, dp), (iq, cq, dq)):
                        if c == pc:
                            if i[k] == pi:
                                xi += dd
                            if j[k] == pi:
                                xj += dd
                    vv.append(xi - xj - sum(int(nsh[k][m]) * Hm[m][c] for m in range(d)))
                rr = mp.sqrt(sum(x * x for x in vv))
                tot += P.s_plain(par.model, rr, e_, s_, n_, A_, al_) - src - (rr - c_) * slope
            return tot

        if p == q:
            val = (U(h, 0) - 2 * U(0, 0) + U(-h, 0)) / (h * h)
        else:
            val = (U(h, h) - U(h, -h) - U(-h, h) + U(-h, -h)) / (4 * h * h)
        return float(val) / float(ref.sqrtm[p] * ref.sqrtm[q])


# ----------------------------------------------------------------------------- modes


def participation_ratio(e):
    """PR = (sum_i |e_i|^2)^2 / (N sum_i |e_i|^4) for a field e of shape (N, d)."""
    e = np.asarray(e, dtype=float)
    w = (e * e).sum(axis=1)
    return float(w.sum() ** 2 / (len(e) * (w * w).sum()))
