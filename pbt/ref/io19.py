"""Independent mini-parsers / encoders for C19 (no PyMatterSim import).

Everything here is written from the file-format descriptions (LAMMPS `dump atom/custom`, `read_data` header,
thermo output in log files), not from the library's readers:

* `parse_dump(text)`        ITEM-record parser -> list of frames with the raw decimal tokens
* `atomic_expected(...)`    what an atomistic reader has to return for one parsed frame (by atom id)
* `centres_expected(...)`   molecule-centre selection: atoms whose type is a key, relabelled, id order kept
* `columns_expected(...)`   1-based column ids -> values by atom id
* `parse_data_header(text)` LAMMPS data-file header (counts, bounds, first section keyword)
* `encode_dump(case)`       frame records -> dump text (own header, used where the library writer is not under test)
* `encode_log(case)`        thermo sections -> log text + the record of what was written
"""
from __future__ import annotations

import re

import numpy as np

# ----------------------------------------------------------------------------- dump text


def parse_dump(text):
    """Sequential ITEM-record parser.  Returns a list of dicts:
    timestep (int), natoms (int), triclinic (bool), flags (list of str), bound_tokens (3 lists of str),
    columns (list of str), rows (natoms lists of str tokens)."""
    # line ends: LF or CRLF (files copied from Windows); a missing newline after the last line is allowed
    lines = text.replace("\r\n", "\n").split("\n")
    if lines and lines[-1] == "":
        lines.pop()
    frames = []
    k = 0
    cur = None
    while k < len(lines):
        ln = lines[k]
        if not ln.startswith("ITEM: "):
            raise ValueError(f"line {k}: expected an ITEM record, got {ln!r}")
        head = ln[len("ITEM: "):].rstrip()
        if head == "TIMESTEP":
            cur = {"timestep": int(lines[k + 1])}
            frames.append(cur)
            k += 2
        elif head == "NUMBER OF ATOMS":
            cur["natoms"] = int(lines[k + 1])
            k += 2
        elif head.startswith("BOX BOUNDS"):
            words = head.split()[2:]
            cur["triclinic"] = words[:3] == ["xy", "xz", "yz"]
            cur["flags"] = words[3:] if cur["triclinic"] else words
            cur["bound_tokens"] = [lines[k + 1 + j].split() for j in range(3)]
            k += 4
        elif head.startswith("ATOMS"):
            cur["columns"] = head.split()[1:]
            n = cur["natoms"]
            cur["rows"] = [lines[k + 1 + j].split() for j in range(n)]
            k += 1 + n
        else:
            raise ValueError(f"line {k}: unknown ITEM {head!r}")
    return frames


def frame_bounds(fr, d):
    """(lo, hi) of the first d axes as floats of the written tokens (orthogonal frames)."""
    b = np.array([[float(t[0]), float(t[1])] for t in fr["bound_tokens"][:d]])
    return b[:, 0].copy(), b[:, 1].copy()


def _by_id(fr):
    ids = np.array([int(r[0]) for r in fr["rows"]], dtype=int)
    n = fr["natoms"]
    if sorted(ids.tolist()) != list(range(1, n + 1)):
        raise ValueError("ids are not a permutation of 1..N (generator bug)")
    order = np.argsort(ids, kind="stable")
    return ids, order


def coord_style(fr):
    cols = fr["columns"][2:]
    for s in ("x", "xu", "xs"):
        if s in cols:
            return s
    raise ValueError(f"no coordinate column in {fr['columns']}")


def atomic_expected(fr, d):
    """Orthogonal frame -> dict(timestep, nparticle, types, positions, boxbounds, boxlength, hmatrix, ambiguous).
    x : coordinates as written; a coordinate below lo is moved up by one box length, above hi down by one;
    xu: as written;  xs: lo + s * (hi - lo).
    `ambiguous` marks coordinates within 1e-9 (relative) of a face, where either image is acceptable."""
    lo, hi = frame_bounds(fr, d)
    L = hi - lo
    _, order = _by_id(fr)
    rows = [fr["rows"][j] for j in order]
    types = np.array([int(r[1]) for r in rows], dtype=int)
    raw = np.array([[float(t) for t in r[2:2 + d]] for r in rows], dtype=float).reshape(len(rows), d)
    style = coord_style(fr)
    amb = np.zeros(raw.shape, dtype=bool)
    if style == "xs":
        pos = lo + raw * L
    elif style == "xu":
        pos = raw.copy()
    else:
        scale = np.maximum(1.0, np.maximum(np.abs(lo), np.abs(hi)))
        amb = (np.abs(raw - lo) <= 1e-9 * scale) | (np.abs(raw - hi) <= 1e-9 * scale)
        pos = np.where(raw < lo, raw + L, np.where(raw > hi, raw - L, raw))
    return {"timestep": fr["timestep"], "nparticle": len(rows), "types": types, "positions": pos, "raw": raw,
            "boxbounds": np.stack([lo, hi], axis=1), "boxlength": L, "hmatrix": np.diag(L), "ambiguous": amb,
            "style": style}


def centres_expected(fr, d, moltypes):
    """Atoms whose type is a key of `moltypes`, in id order, types replaced by the mapped values."""
    e = atomic_expected(fr, d)
    keys = set(int(k) for k in moltypes)
    sel = np.array([int(t) in keys for t in e["types"]], dtype=bool)
    out = dict(e)
    out["selected_ids"] = np.nonzero(sel)[0] + 1
    out["types"] = np.array([moltypes[int(t)] for t in e["types"][sel]], dtype=int)
    out["positions"] = e["positions"][sel]
    out["ambiguous"] = e["ambiguous"][sel]
    out["raw"] = e["raw"][sel]
    out["nparticle"] = int(sel.sum())
    return out


def columns_expected(fr, cols1):
    """Values of the 1-based token columns `cols1` ordered by atom id, plus the types by id."""
    _, order = _by_id(fr)
    rows = [fr["rows"][j] for j in order]
    vals = np.array([[float(r[c - 1]) for c in cols1] for r in rows], dtype=float).reshape(len(rows), len(cols1))
    types = np.array([int(r[1]) for r in rows], dtype=int)
    return vals, types


# ----------------------------------------------------------------------------- dump encoder (own header)

STYLE_COLS = {"x": ["x", "y", "z"], "xs": ["xs", "ys", "zs"], "xu": ["xu", "yu", "zu"]}


LAYOUT_PLAIN = {"eol": "\n", "sep": "1", "trail": False, "final_newline": True, "bfmt": None, "kind": "plain"}
LAYOUT_LAMMPS = {"eol": "\n", "sep": "1", "trail": True, "final_newline": True, "bfmt": "%.16e", "kind": "lammps"}
_SEPS = [" ", "\t", "   ", " \t"]


def join_tokens(tokens, lay, pad_from=0):
    """One line of white-space separated tokens in the given layout (without the line end).
    sep: '1' one blank | '2' two blanks | 'tab' | 'mixed' blanks and tabs | 'pad' right-aligned columns."""
    sep = lay["sep"]
    if sep == "1":
        s = " ".join(tokens)
    elif sep == "2":
        s = "  ".join(tokens)
    elif sep == "tab":
        s = "\t".join(tokens)
    elif sep == "mixed":
        s = tokens[0] + "".join(_SEPS[k % 4] + t for k, t in enumerate(tokens[1:]))
    else:
        s = " ".join(t if k < pad_from else t.rjust(max(len(t), 12) + (k % 3)) for k, t in enumerate(tokens))
    return s + (" " if lay["trail"] else "")


def atom_lines(fmt, ids, types, coords, extras, pad_z=False, lay=None, elem=None):
    """One text line per atom in the given row order: id type coords [0-z-column] [element] extras [element].
    elem: None | {"values": [str]*N, "first": bool} — a non-numeric trailing column (dump custom ... element)."""
    lay = lay or LAYOUT_PLAIN
    out = []
    for r in range(len(ids)):
        toks = [str(int(ids[r])), str(int(types[r]))] + [fmt % v for v in coords[r]]
        if pad_z:
            toks.append(fmt % 0.0)
        ex = [fmt % v for v in extras[r]]
        if elem is not None:
            ex = ([elem["values"][r]] + ex) if elem["first"] else (ex + [elem["values"][r]])
        out.append(join_tokens(toks + ex, lay, pad_from=2) + lay["eol"])
    return "".join(out)


def encode_dump(case):
    """case: d, style, fmt, frames=[{timestep, lo, L, tilt(None|[xy,xz,yz]), ids, types, f, exc, extras, names, flags,
    zcol}] -> dump text.  Coordinates: xs -> f ; x/xu -> lo + (f+exc)*L (orthogonal part only; for tilted headers the
    coordinates are just numbers, the readers that accept them do not interpret them)."""
    d, style, fmt = case["d"], case["style"], case["fmt"]
    lay = case.get("layout") or LAYOUT_PLAIN
    eol = lay["eol"]
    bfmt = lay["bfmt"] or fmt
    out = []
    for fr in case["frames"]:
        lo, L = np.asarray(fr["lo"], float), np.asarray(fr["L"], float)
        n = len(fr["ids"])
        out.append(f"ITEM: TIMESTEP{eol}%d{eol}ITEM: NUMBER OF ATOMS{eol}%d{eol}" % (fr["timestep"], n))
        blo = list(lo) + ([-0.5] if d == 2 else [])
        bhi = list(lo + L) + ([0.5] if d == 2 else [])
        if fr.get("tilt") is None:
            out.append("ITEM: BOX BOUNDS %s" % fr["flags"] + eol)
            for a, b in zip(blo, bhi):
                out.append(join_tokens([bfmt % a, bfmt % b], lay) + eol)
        else:
            xy, xz, yz = fr["tilt"]
            if d == 2:
                xz = yz = 0.0
            out.append("ITEM: BOX BOUNDS xy xz yz %s" % fr["flags"] + eol)
            ext = [(min(0.0, xy, xz, xy + xz), max(0.0, xy, xz, xy + xz), xy), (min(0.0, yz), max(0.0, yz), xz),
                   (0.0, 0.0, yz)]
            for a, b, (emin, emax, t) in zip(blo, bhi, ext):
                out.append(join_tokens([bfmt % (a + emin), bfmt % (b + emax), bfmt % t], lay) + eol)
        ncoord = 3 if (d == 3 or fr["zcol"]) else 2
        elem = fr.get("elem")
        trailing = list(fr["names"])
        if elem is not None:
            trailing = (["element"] + trailing) if elem["first"] else (trailing + ["element"])
        out.append("ITEM: ATOMS id type " + " ".join(STYLE_COLS[style][:ncoord] + trailing) + (" " if lay["trail"] else "") + eol)
        if style == "xs":
            coords = np.asarray(fr["f"], float)
        else:
            coords = lo + (np.asarray(fr["f"], float) + np.asarray(fr["exc"], float)) * L
        out.append(atom_lines(fmt, fr["ids"], fr["types"], coords, fr["extras"], pad_z=ncoord > d, lay=lay, elem=elem))
    text = "".join(out)
    if not lay["final_newline"] and text.endswith(eol):
        text = text[: len(text) - len(eol)]
    return text


# ----------------------------------------------------------------------------- data-file header

_HEADER_KEYS = ["atoms", "bonds", "angles", "dihedrals", "impropers", "atom types", "bond types", "angle types",
                "dihedral types", "improper types", "xlo xhi", "ylo yhi", "zlo zhi", "xy xz yz"]
_SECTIONS = ["Atoms", "Velocities", "Masses", "Bonds", "Angles", "Pair Coeffs"]


def parse_data_header(text):
    """LAMMPS read_data header rules: first line is a title and skipped; blank lines are ignored; '#' starts a
    comment; a header line is '<values> <keyword>'; the header ends at the first section keyword."""
    lines = text.split("\n")
    res = {"title": lines[0], "counts": {}, "bounds": {}, "bound_tokens": {}, "section": None, "section_line": None,
           "after_section": None, "unknown": []}
    for k in range(1, len(lines)):
        raw = lines[k]
        ln = raw.split("#")[0].strip()
        if not ln:
            continue
        first = ln.split()[0]
        if first in _SECTIONS:
            res["section"] = first
            res["section_line"] = raw
            res["after_section"] = lines[k + 1:]
            break
        for key in sorted(_HEADER_KEYS, key=len, reverse=True):
            if ln.endswith(" " + key):
                vals = ln[: -len(key)].split()
                if key.endswith("hi"):
                    res["bounds"][key[0]] = (float(vals[0]), float(vals[1]))
                    res["bound_tokens"][key[0]] = (vals[0], vals[1])
                    if len(vals) != 2:
                        res["unknown"].append(raw)
                elif key == "xy xz yz":
                    res["tilt"] = tuple(float(v) for v in vals)
                else:
                    if len(vals) != 1 or not re.fullmatch(r"\d+", vals[0]):
                        res["unknown"].append(raw)
                    else:
                        res["counts"][key] = int(vals[0])
                break
        else:
            res["unknown"].append(raw)
    return res


# ----------------------------------------------------------------------------- thermo log

PRE_LINES = [
    "LAMMPS (29 Aug 2024)", "units lj", "atom_style atomic", "read_data system.data", "  orthogonal box = (0 0 0) to (10 10 10)",
    "  1 by 2 by 2 MPI processor grid", "  4000 atoms", "pair_style lj/cut 2.5", "thermo 100",
    "thermo_style custom step temp epair press", "run 1000", "Neighbor list info ...", "  update: every = 1 steps",
    "WARNING: No fixes with time integration, atoms won't move (src/verlet.cpp:60)",
    "Per MPI rank memory allocation (min/avg/max) = 3.2 | 3.2 | 3.2 Mbytes", "Setting up Verlet run ...",
    "  Unit style    : lj", "  Current step  : 0", "  Time step     : 0.005", "print \"equilibration done\"",
    "Stepping stone comment", "variable Loop equal 3", "", "",
]
POST_LINES = [
    "", "Performance: 86400.0 tau/day, 200.0 timesteps/s, 800.0 katom-step/s", "99.5% CPU use with 4 MPI tasks x 1 OpenMP threads",
    "MPI task timing breakdown:", "Section |  min time  |  avg time  |  max time  |%varavg| %total",
    "---------------------------------------------------------------", "Pair    | 1.2        | 1.3        | 1.4        |   0.1 | 80.00",
    "Nlocal:        1000.00 ave        1010 max         990 min", "Histogram: 1 0 0 0 0 2 0 0 0 1",
    "Total # of neighbors = 150000", "Ave neighs/atom = 37.5", "Neighbor list builds = 50", "Dangerous builds = 0",
    "1000 atoms in group mobile", "unfix 1", "fix 2 all nvt temp 1.0 1.0 0.5", "run 500",
]
# echoed input lines with an odd number of double quotes (LAMMPS triple-quote strings span lines)
QUOTE_LINES = ['print """', '"""', 'print "equilibration', 'variable msg string "run', "System volume: 1000 \"", 'a "b" c "d']
LAST_LINES = ["Total wall time: 0:00:12", "", "Dangerous builds = 0", "print \"all done\"", "# end of log"]
LOOP_LINES = [
    "Loop time of 4.98 on 4 procs for 1000 steps with 4000 atoms",
    "Loop time of 0.000123 on 1 procs for 0 steps with 12 atoms",
    "Loop time of 61.5 on 16 procs for 200000 steps with 65536 atoms",
]
THERMO_COLS = ["Temp", "E_pair", "E_mol", "TotEng", "Press", "Volume", "PotEng", "KinEng", "Lx", "Ly", "Density",
               "c_msd[4]", "v_lambda", "f_avg", "Atoms", "Time", "CPU", "Enthalpy", "Pxy", "c_1"]


def log_row(step, vals, fmt, width):
    toks = [str(int(step))] + [fmt % v for v in vals]
    if width:
        return " ".join(t.rjust(width) for t in toks)
    return " ".join(toks)


def encode_log(case):
    """case: pre (list[str]), sections=[{columns, steps, values (rows x ncol-1), fmt, width, loop, post(list[str])}],
    tail (None | {columns, steps, values, fmt, width, cut:int chars removed from the last row, newline: bool}),
    last (str | None).  Header lines start at column 0 with 'Step '.
    Returns (text, complete, tail_rows) where complete = [(columns, [[token,...], ...])] as written."""
    out = [ln + "\n" for ln in case["pre"]]
    complete = []
    lay = case.get("layout") or {}
    trail = " " if lay.get("trail") else ""     # older LAMMPS versions end thermo lines with a blank
    for sec in case["sections"]:
        out.append(" ".join(sec["columns"]) + trail + "\n")
        rows = []
        for s, v in zip(sec["steps"], sec["values"]):
            ln = log_row(s, v, sec["fmt"], sec["width"])
            rows.append(ln.split())
            out.append(ln + trail + "\n")
        out.append(sec["loop"] + "\n")
        out += [ln + "\n" for ln in sec["post"]]
        complete.append((list(sec["columns"]), rows))
    tail_rows = None
    if case["tail"] is not None:
        t = case["tail"]
        out.append(" ".join(t["columns"]) + "\n")
        tail_rows = []
        lines = [log_row(s, v, t["fmt"], t["width"]) for s, v in zip(t["steps"], t["values"])]
        for ln in lines:
            tail_rows.append(ln.split())
        body = "\n".join(lines)
        if t["cut"]:
            # the writer was interrupted in the middle of the last row: keep at least its first token
            last = lines[-1]
            first_end = len(last) - len(last.lstrip()) + len(last.split()[0])
            keep = max(first_end, len(last) - t["cut"])
            body = body[: len(body) - (len(last) - keep)]
            tail_rows = tail_rows[:-1]  # the last row is not complete any more
        elif t["newline"]:
            body += "\n"
        out.append(body)
    elif case["last"] is not None:
        out.append(case["last"] + "\n")
    text = "".join(out)
    if lay.get("eol") == "\r\n":
        text = text.replace("\n", "\r\n")
    return text, complete, tail_rows


def tokens_to_float(rows, ncol):
    return np.array([[float(t) for t in r] for r in rows], dtype=float).reshape(len(rows), ncol)
