"""Independent reference for the conditional structure factor (C13) and the pair weights of the conditional g(r).

    rho_A(q) = sum_i A_i exp(-i q.r_i) / sqrt(N_A),   S_A(q) = |rho_A(q)|^2   (summed over vector components)
    q_c = 2 pi n_c / L_c  for integer wave vectors n in an orthogonal cell.
N_A is the number of selected particles for a boolean A and N otherwise.  numpy only, no import of PyMatterSim.
"""
from __future__ import annotations

import numpy as np


def wavevectors(nvec, L):
    nvec = np.asarray(nvec, dtype=float)
    L = np.asarray(L, dtype=float)
    q = 2.0 * np.pi * nvec / L[None, :]
    return q, np.sqrt((q * q).sum(axis=1))


def fourier(pos, q, A):
    """A: (N,) bool / real / complex, or (N, m).  Returns (rho (nq,) or (nq, m), Sq (nq,), N_A)."""
    pos = np.asarray(pos, dtype=float)
    A = np.asarray(A)
    phase = np.exp(-1j * (q @ pos.T))          # (nq, N)
    if A.dtype == bool:
        na = int(A.sum())
        rho = phase[:, A].sum(axis=1) / np.sqrt(na)
        return rho, np.abs(rho) ** 2, na
    na = pos.shape[0]
    rho = (phase @ A.astype(complex)) / np.sqrt(na)
    if rho.ndim == 1:
        return rho, np.abs(rho) ** 2, na
    return rho, (np.abs(rho) ** 2).sum(axis=1), na


def fourier_error_scale(pos, q, A):
    """A bound-like scale for the float64 error of rho and S: phases carry |q.r| eps, sums carry N eps."""
    pos = np.asarray(pos, dtype=float)
    A = np.asarray(A)
    absA = np.abs(A.astype(complex)) if A.dtype != bool else A.astype(float)
    if absA.ndim > 1:
        absA = np.sqrt((absA ** 2).sum(axis=1))
    ph = np.abs(q @ pos.T)                      # (nq, N)
    return ((ph + pos.shape[0] + 8.0) * absA[None, :]).sum(axis=1)  # multiply by eps ~ 2.3e-16 outside


def group_mean(qabs_rounded, values):
    """Mean of `values` over rows with identical (already rounded) |q|; returns (sorted unique q, means)."""
    qabs_rounded = np.asarray(qabs_rounded, dtype=float)
    values = np.asarray(values, dtype=float)
    uq = np.unique(qabs_rounded)
    return uq, np.array([values[qabs_rounded == u].mean() for u in uq])


def rounding_ambiguous(x, decimals, rel=1e-12):
    """True where round(x, decimals) could flip under a relative perturbation `rel` of x."""
    x = np.asarray(x, dtype=float)
    y = np.abs(x) * 10.0 ** decimals
    frac = y - np.floor(y)
    return np.abs(frac - 0.5) <= rel * np.maximum(y, 1.0) + 1e-300


def pair_weights(A, kind, ii, jj):
    """w_ij of the conditional pair correlation for pairs (ii[p], jj[p]).

    kind: 'bool' | 'scalar' (real or complex) | 'vector' | 'tensor'
      bool   : 1 if both selected else 0
      scalar : Re(A_i conj(A_j))
      vector : Re sum_c A_ic conj(A_jc)
      tensor : trace(A_i A_j)   (real tensors)
    """
    A = np.asarray(A)
    if kind == "bool":
        return (A[ii] & A[jj]).astype(float)
    if kind == "scalar":
        return (A[ii] * np.conj(A[jj])).real.astype(float)
    if kind == "vector":
        return (A[ii] * np.conj(A[jj])).sum(axis=1).real.astype(float)
    if kind == "tensor":
        return np.einsum("pab,pba->p", A[ii], A[jj]).real.astype(float)
    raise ValueError(kind)
