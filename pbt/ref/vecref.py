"""Independent references for C15 (vector-field measures, longitudinal/transverse split, per-q time correlation).

Written from the property statements C15 / C14 and docs/vectors.md, docs/sq.md.  numpy only; no PyMatterSim.
"""
from __future__ import annotations

import numpy as np

from . import geom

E8 = 5e-9  # half a unit of the 8th decimal: the library rounds its tables with round(8)


def participation_ratio(e):
    e = np.asarray(e, dtype=float)
    n2 = np.einsum("ia,ia->i", e, e)
    return float(n2.sum() ** 2 / (len(e) * (n2 ** 2).sum()))


def neighbour_dots(e, lists):
    """list over particles of arrays e_i . e_j over the listed neighbours j"""
    e = np.asarray(e, dtype=float)
    return [np.array([float(np.dot(e[i], e[j])) for j in nb]) for i, nb in enumerate(lists)]


def alignment(e, lists):
    return np.array([d.sum() / len(d) for d in neighbour_dots(e, lists)])


def phase_quotient(e, lists):
    dots = np.concatenate(neighbour_dots(e, lists))
    return float(dots.sum()), float(np.abs(dots).sum())


def div_curl(pos, H, ppp, u, lists):
    """Neighbour averages of r_ij . u_ij and r_ij x u_ij with r_ij = minimum image of R_j - R_i, u_ij = u_j - u_i.
    Returns (div[N], curl[N,3] or None, tied[N])."""
    pos = np.asarray(pos, dtype=float)
    u = np.asarray(u, dtype=float)
    N, d = u.shape
    div = np.zeros(N)
    curl = np.zeros((N, 3)) if d == 3 else None
    tied = np.zeros(N, dtype=bool)
    for i, nb in enumerate(lists):
        nb = list(nb)
        r, tie = geom.min_image(pos[nb] - pos[i], H, ppp)
        tied[i] = bool(tie.any())
        du = u[nb] - u[i]
        div[i] = np.einsum("ja,ja->", r, du) / len(nb)
        if d == 3:
            c = np.stack([r[:, 1] * du[:, 2] - r[:, 2] * du[:, 1],
                          r[:, 2] * du[:, 0] - r[:, 0] * du[:, 2],
                          r[:, 0] * du[:, 1] - r[:, 1] * du[:, 0]], axis=1)
            curl[i] = c.sum(axis=0) / len(nb)
    return div, curl, tied


def linear_field_div_curl(pos, A, lists):
    """Open boundaries, u = A r + b:  div_i = tr(A M_i),  curl_i,a = eps_abc (M_i A^T)_bc  with the second-moment
    tensor M_i = <r_ij r_ij^T> of the neighbour shell (matrix form, no per-pair products of r and u)."""
    pos = np.asarray(pos, dtype=float)
    N, d = pos.shape
    div = np.zeros(N)
    curl = np.zeros((N, 3)) if d == 3 else None
    for i, nb in enumerate(lists):
        r = pos[list(nb)] - pos[i]
        M = r.T @ r / len(nb)
        div[i] = np.trace(A @ M)
        if d == 3:
            B = M @ A.T          # B_bc = sum_d M_bd A_cd
            curl[i] = [B[1, 2] - B[2, 1], B[2, 0] - B[0, 2], B[0, 1] - B[1, 0]]
    return div, curl


def vibrability(freq, vecs, N):
    """Psi_i = sum_modes |e_{mode,i}|^2 / omega_mode^2 ; rows of `vecs` are particle-major (x1,y1,..,x2,y2,..)."""
    vecs = np.asarray(vecs, dtype=float)
    d = vecs.shape[0] // N
    out = np.zeros(N)
    for m in range(vecs.shape[1]):
        out += (vecs[:, m] ** 2).reshape(N, d).sum(axis=1) / float(freq[m]) ** 2
    return out


# ----------------------------------------------------------------------------- Fourier sums and the L/T split


def qvectors(nvec, L):
    return 2.0 * np.pi * np.asarray(nvec, dtype=float) / np.asarray(L, dtype=float)[None, :]


def fourier(pos, q, u):
    """F(q) = N^-1/2 sum_j u_j exp(-i q.r_j)   (docs/sq.md convention);  shape (nq, d)"""
    ph = np.exp(-1j * (q @ np.asarray(pos, dtype=float).T))      # (nq, N)
    return ph @ np.asarray(u, dtype=float) / np.sqrt(len(pos))


def split(F, q):
    qn = np.sqrt((q * q).sum(axis=1))
    qh = q / qn[:, None]
    c = (qh * F).sum(axis=1)
    Lp = qh * c[:, None]
    return Lp, F - Lp, qh, qn


def split_tolerances(F, qn, d):
    """2-norm error bounds (per wave vector) of the returned, twice rounded, columns relative to exact arithmetic.
    eta  : rounding of the d complex FFT components at 8 decimals (re and im each by <= 5e-9)
    epsq : error of the unit vector built from the rounded q columns and the rounded |q|"""
    eta = np.sqrt(2.0 * d) * E8
    epsq = (np.sqrt(d) + 1.0) * E8 / (qn - E8)
    nF = np.sqrt((np.abs(F) ** 2).sum(axis=1)) + eta
    tolF = eta * np.ones_like(qn)
    tolL = 2 * eta + 2.1 * epsq * nF
    tolT = 3 * eta + 2.1 * epsq * nF
    return {"eta": eta, "epsq": epsq, "nF": nF, "FFT": tolF, "L_FFT": tolL, "T_FFT": tolT}


# ----------------------------------------------------------------------------- time correlation (property C14)


def evenly_spaced(timesteps):
    dts = np.diff(np.asarray(timesteps))
    return len(dts) > 0 and bool(np.all(dts == dts[0]))


def corr_numerators(X, even):
    """X: (T, m) complex series.  N(k) = average over the origins t0 of Re sum_c X(t0+k) conj X(t0) for evenly spaced
    frames, the first frame as the only origin otherwise.  Also returns, per lag, the list of frame pairs used."""
    T = X.shape[0]
    num = np.zeros(T)
    pairs = []
    for k in range(T):
        origins = range(T - k) if even else [0]
        vals = [float(np.real(np.sum(X[t0 + k] * np.conj(X[t0])))) for t0 in origins]
        num[k] = sum(vals) / len(vals)
        pairs.append([(t0 + k, t0) for t0 in origins])
    return num, pairs


def corr_with_bound(X, tolX, even):
    """Normalised correlation C(k) = N(k)/N(0) and a rigorous bound on |C_lib - C| when every frame of the library's
    series differs from X by at most tolX[t] in 2-norm (plus the final rounding at 8 decimals)."""
    num, pairs = corr_numerators(X, even)
    nX = np.sqrt((np.abs(X) ** 2).sum(axis=1))
    dnum = np.zeros_like(num)
    for k, pl in enumerate(pairs):
        dnum[k] = np.mean([nX[a] * tolX[b] + nX[b] * tolX[a] + tolX[a] * tolX[b] for a, b in pl])
    if not num[0] - dnum[0] > 0:
        return None, None
    C = num / num[0]
    bound = (dnum + np.abs(C) * dnum[0]) / (num[0] - dnum[0]) + E8 + 1e-10 * np.abs(C)
    return C, bound
