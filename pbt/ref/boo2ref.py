"""Independent references for the 2D bond-orientational order (property C10), written from the definitions

    psi_l(i) = (1/n_i) sum_{j in nb(i)} exp(i l theta_ij)                       (docs/boo_2d.md eq. 1)
    psi_l(i) = sum_j w_ij exp(i l theta_ij) / sum_j |w_ij|                      (eq. 2)
    theta_ij = atan2(y_ij, x_ij) of the minimum-image bond r_j - r_i (contract of C02: fractional rounding)

and compact references for the three derived quantities, from the statements of properties C16 (window
average), C13 (conditional g(r) of a complex scalar, weight Re(A_i conj A_j)) and C14 (time correlation).

numpy + pbt.ref.geom only; never imports PyMatterSim.
"""
from __future__ import annotations

import numpy as np

from . import geom

EPS = np.finfo(float).eps


# ----------------------------------------------------------------------------- list files (own parser)


def parse_list_blocks(text: str, nparticle: int, nframes: int, as_float: bool):
    """Parse `nframes` blocks 'header + nparticle rows' of a neighbour-type file.
    Row: id cn v1 .. v_cn (ids 1-based, rows in any id order).  Returns list[frame] of list[particle] of arrays
    (neighbour ids converted to 0-based ints, or floats as written)."""
    lines = [ln for ln in text.split("\n")]
    pos = 0
    out = []
    for _ in range(nframes):
        header = lines[pos].split()
        pos += 1
        assert header[:2] == ["id", "cn"], f"unexpected header {header}"
        rows = [None] * nparticle
        for _ in range(nparticle):
            item = lines[pos].split()
            pos += 1
            i = int(item[0]) - 1
            cn = int(item[1])
            vals = item[2:2 + cn]
            assert len(vals) == cn, "row shorter than its coordination number"
            rows[i] = np.array([float(v) for v in vals]) if as_float else np.array([int(v) - 1 for v in vals], dtype=int)
        assert all(r is not None for r in rows), "some particle id missing in a block"
        out.append(rows)
    return out


# ----------------------------------------------------------------------------- psi


def psi_frame(pos, H, ppp, lists, l, weights=None, nmax=None):
    """One frame.  Returns (psi[N] complex, tol[N], ambiguous[N] bool).

    tol: the bond vector carries an absolute error <= ~16 eps S in either implementation (difference of coordinates,
    solve/inverse, rounding, product; S = largest coordinate + cell size), i.e. an angle error <= 32 eps S / |r| between
    the two; psi is a convex (or |w|-normalised) combination of unit phasors e^{i l theta}, so
    |d psi| <= l * max_b dtheta_b.  ambiguous: a bond is a half-cell minimum-image tie or shorter than 1e-6 S
    (angle ill-defined) -> no value is asserted for that particle.
    """
    pos = np.asarray(pos, dtype=float)
    H = np.asarray(H, dtype=float)
    N = len(pos)
    S = float(np.abs(pos).max() + np.abs(H).sum())
    psi = np.zeros(N, dtype=np.complex128)
    tol = np.zeros(N)
    amb = np.zeros(N, dtype=bool)
    for i in range(N):
        nb = np.asarray(lists[i], dtype=int)
        w = None if weights is None else np.asarray(weights[i], dtype=float)
        if nmax is not None:
            nb = nb[:nmax]
            w = None if w is None else w[:nmax]
        vec, tie = geom.min_image(pos[nb] - pos[i], H, ppp)
        r = np.sqrt((vec ** 2).sum(axis=1))
        theta = np.arctan2(vec[:, 1], vec[:, 0])
        ph = np.cos(l * theta) + 1j * np.sin(l * theta)
        if w is None:
            psi[i] = ph.sum() / len(nb)
        else:
            psi[i] = (w * ph).sum() / np.abs(w).sum()
        short = r <= 1e-6 * S
        amb[i] = bool(tie.any() or short.any())
        rmin = r[~short].min() if (~short).any() else S
        tol[i] = 1e-12 + l * 32.0 * EPS * S / rmin
    return psi, tol, amb


def psi_traj(frames_pos, H, ppp, frames_lists, l, frames_weights=None, nmax=None):
    """H: one cell matrix, or a list with one matrix per frame (sheared trajectories: frame t uses its own cell)."""
    Hs = list(H) if isinstance(H, (list, tuple)) else [H] * len(frames_pos)
    out = [psi_frame(p, Hs[t], ppp, frames_lists[t], l, None if frames_weights is None else frames_weights[t], nmax)
           for t, p in enumerate(frames_pos)]
    return (np.array([o[0] for o in out]), np.array([o[1] for o in out]), np.array([o[2] for o in out]))


# ----------------------------------------------------------------------------- window average (C16)


def window_average(A, w):
    """rows n = 0 .. T-w-1: mean of frames n .. n+w-1 (T - w rows)."""
    A = np.asarray(A)
    T = A.shape[0]
    return np.array([A[n:n + w].sum(axis=0) / w for n in range(T - w)]).reshape((T - w,) + A.shape[1:])


# ----------------------------------------------------------------------------- time correlation (C14)


def time_correlation(A, timesteps, dt):
    """A: (T, N) complex.  Evenly spaced frames: lag k -> average over all origins n of Re sum_i A_i(n+k) conj A_i(n);
    otherwise the first frame is the only origin.  Normalised by the lag-zero value.  Returns (t, C, C0)."""
    A = np.asarray(A, dtype=np.complex128)
    ts = np.asarray(timesteps)
    T = len(ts)
    steps = {int(ts[k + 1] - ts[k]) for k in range(T - 1)}
    C = np.zeros(T)
    if len(steps) == 1:
        for k in range(T):
            vals = [np.sum(A[n + k] * np.conj(A[n])).real for n in range(T - k)]
            C[k] = sum(vals) / len(vals)
    else:
        for k in range(T):
            C[k] = np.sum(A[k] * np.conj(A[0])).real
    t = (ts - ts[0]) * dt
    c0 = C[0]
    with np.errstate(all="ignore"):
        return t, C / c0, c0


# ----------------------------------------------------------------------------- conditional g(r), complex scalar (C13)


def conditional_gr_complex(pos, H, boxlength, ppp, A, rdelta, nbins, edge_eps=1e-9):
    """Pair histogram over i<j of the minimum-image distance, plain and weighted by Re(A_i conj A_j), bins
    [k rdelta, (k+1) rdelta), k < nbins (last bin closed), normalised by N * rho * pi (r_hi^2 - r_lo^2) / 2, rho = N / prod(boxlength).

    Pairs whose distance lies within edge_eps (relative) of a bin edge may fall on either side; returns
    r, gr_lo, gr_hi, gA, gA_slack, n_ambiguous so that the caller can apply the interval rule.
    """
    pos = np.asarray(pos, dtype=float)
    A = np.asarray(A, dtype=np.complex128)
    N = len(pos)
    iu, ju = np.triu_indices(N, k=1)
    vec, tie = geom.min_image(pos[ju] - pos[iu], H, ppp)
    d = np.sqrt((vec ** 2).sum(axis=1))
    wgt = (A[ju] * np.conj(A[iu])).real
    x = d / rdelta
    k0 = np.floor(x).astype(int)
    near = np.abs(x - np.round(x)) <= edge_eps * np.maximum(1.0, x)
    # vectorised (N of several hundred gives 1e5 pairs): definite pairs go to their bin, a pair sitting on edge e is
    # acceptable in both bins e-1 and e
    inb = ~near & (k0 >= 0) & (k0 < nbins)
    cnt = np.bincount(k0[inb], minlength=nbins).astype(float)
    gA = np.bincount(k0[inb], weights=wgt[inb], minlength=nbins)
    amb = np.zeros(nbins)
    slack = np.zeros(nbins)
    e = np.round(x[near]).astype(int)
    for b in (e - 1, e):
        m = (b >= 0) & (b < nbins)
        amb += np.bincount(b[m], minlength=nbins)
        slack += np.bincount(b[m], weights=np.abs(wgt[near][m]), minlength=nbins)
    edges = np.arange(nbins + 1) * rdelta
    shell = np.pi * (edges[1:] ** 2 - edges[:-1] ** 2)
    rho = N / float(np.prod(boxlength))
    norm = 2.0 / (N * rho * shell)
    r = edges[1:] - 0.5 * rdelta
    return r, cnt * norm, (cnt + amb) * norm, gA * norm, slack * norm, int(near.sum()), bool(tie.any())
