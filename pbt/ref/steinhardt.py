"""Independent reference for Steinhardt bond-orientational order in three dimensions.

Written from the definitions (Steinhardt, Nelson, Ronchetti 1983; property C09), numpy + python
integers/fractions only.  NEVER imports PyMatterSim, never uses tabulated harmonics.

  Y_lm          orthonormal, Condon-Shortley phase, m = -l..l, from a stable three-term recurrence of the
                fully normalised associated Legendre functions, evaluated from the Cartesian bond vector
                (cos(theta) = z/r, sin(theta) = rho/r, e^{i phi} = (x + i y)/rho), so it stays accurate at the poles
  q_lm(i)       sum_j w_ij Y_lm(r_ij) / sum_j w_ij          (w_ij = 1 when no weights)
  Q_lm(i)       (q_lm(i) + sum_{j in nb(i)} q_lm(j)) / (1 + n_i)
  q_l           sqrt(4 pi/(2l+1) sum_m |q_lm|^2)
  w_l           sum_{m1+m2+m3=0} (l l l; m1 m2 m3) q_lm1 q_lm2 q_lm3,   w-hat_l = w_l / (sum_m |q_lm|^2)^{3/2}
  s_ij          Re sum_m q_lm(i) conj q_lm(j) / (|q(i)| |q(j)|)
  Wigner 3-j    Racah's formula in exact rational arithmetic (fractions.Fraction), one square root at the end
plus compact references of the vector-conditional pair correlation (property C13) and of the
origin-averaged normalised time autocorrelation (property C14), which boo_3d.spatial_corr / time_corr are
documented to be.
"""
from __future__ import annotations

import math
from fractions import Fraction
from functools import lru_cache

import numpy as np

# ----------------------------------------------------------------------------- spherical harmonics


def ylm_cart(l, vec):
    """Y_lm of the directions of `vec` (n,3) -> complex array (n, 2l+1), column m+l holds Y_lm."""
    v = np.atleast_2d(np.asarray(vec, dtype=float))
    x, y, z = v[:, 0], v[:, 1], v[:, 2]
    rho = np.hypot(x, y)
    r = np.hypot(rho, z)
    ct = z / r
    stn = rho / r
    # e^{i phi}; on the axis phi is irrelevant for m = 0 and the m != 0 terms vanish with sin^|m|
    # (for rho/r < 1e-150 the m != 0 terms are below 1e-150 whatever the azimuth is)
    offaxis = rho > 1e-150 * r
    rs = np.where(offaxis, rho, 1.0)
    eip = np.where(offaxis, x / rs, 1.0) + 1j * np.where(offaxis, y / rs, 0.0)
    n = len(ct)
    out = np.zeros((n, 2 * l + 1), dtype=np.complex128)
    pmm = np.full(n, math.sqrt(1.0 / (4.0 * math.pi)))  # normalised P_00
    em = np.ones(n, dtype=np.complex128)  # e^{i m phi}
    for m in range(0, l + 1):
        if m > 0:
            pmm = -math.sqrt((2.0 * m + 1.0) / (2.0 * m)) * stn * pmm
            em = em * eip
        # upward recurrence in degree at fixed order m
        p_prev = np.zeros(n)
        p_cur = pmm
        for ll in range(m + 1, l + 1):
            a = math.sqrt((4.0 * ll * ll - 1.0) / (ll * ll - m * m))
            b = math.sqrt(((ll - 1.0) ** 2 - m * m) / (4.0 * (ll - 1.0) ** 2 - 1.0))
            p_prev, p_cur = p_cur, a * (ct * p_cur - b * p_prev)
        val = p_cur * em
        out[:, l + m] = val
        if m > 0:
            out[:, l - m] = (-1) ** m * np.conj(val)
    return out


def grad_bound(l):
    """sup over the sphere and over m of |grad_S Y_lm| <= sqrt(l(l+1)(2l+1)/(4 pi)) (from the sum rule)."""
    return math.sqrt(l * (l + 1) * (2 * l + 1) / (4.0 * math.pi))


# ----------------------------------------------------------------------------- Wigner 3-j


def _f(n):
    return math.factorial(n)


def wigner3j_exact(j1, j2, j3, m1, m2, m3):
    """Returns (sign*rational_sum, rational_under_root): value = s * sqrt(r).  Integer arguments only."""
    if m1 + m2 + m3 != 0 or abs(m1) > j1 or abs(m2) > j2 or abs(m3) > j3:
        return Fraction(0), Fraction(0)
    if j3 > j1 + j2 or j3 < abs(j1 - j2):
        return Fraction(0), Fraction(0)
    tri = Fraction(_f(j1 + j2 - j3) * _f(j1 - j2 + j3) * _f(-j1 + j2 + j3), _f(j1 + j2 + j3 + 1))
    root = tri * _f(j1 + m1) * _f(j1 - m1) * _f(j2 + m2) * _f(j2 - m2) * _f(j3 + m3) * _f(j3 - m3)
    kmin = max(0, j2 - j3 - m1, j1 - j3 + m2)
    kmax = min(j1 + j2 - j3, j1 - m1, j2 + m2)
    s = Fraction(0)
    for k in range(kmin, kmax + 1):
        den = (_f(k) * _f(j1 + j2 - j3 - k) * _f(j1 - m1 - k) * _f(j2 + m2 - k)
               * _f(j3 - j2 + m1 + k) * _f(j3 - j1 - m2 + k))
        s += Fraction((-1) ** k, den)
    if (j1 - j2 - m3) % 2:
        s = -s
    return s, root


def wigner3j(j1, j2, j3, m1, m2, m3):
    s, root = wigner3j_exact(j1, j2, j3, m1, m2, m3)
    if s == 0:
        return 0.0
    # s*sqrt(root) = sign(s) * sqrt(s^2 root): one correctly rounded division, one square root
    v = s * s * root
    return math.copysign(math.sqrt(v.numerator / v.denominator), s)


@lru_cache(maxsize=None)
def w3j_table(l):
    """(idx[K,3] of column indices m+l, val[K]) over all m1+m2+m3 = 0."""
    idx, val = [], []
    for m1 in range(-l, l + 1):
        for m2 in range(-l, l + 1):
            m3 = -m1 - m2
            if abs(m3) > l:
                continue
            t = wigner3j(l, l, l, m1, m2, m3)
            if t != 0.0:
                idx.append((m1 + l, m2 + l, m3 + l))
                val.append(t)
    return np.array(idx, dtype=int).reshape(-1, 3), np.array(val, dtype=float)


# ----------------------------------------------------------------------------- geometry (own copy)


def min_image(R, H, ppp):
    """Fractional-rounding minimum image (contract of property C02).  Returns (vec, distance_from_tie)."""
    H = np.asarray(H, dtype=float)
    f = np.linalg.solve(H.T, np.atleast_2d(R).T).T
    p = np.asarray(ppp, dtype=float)
    n = np.floor(f + 0.5) * p
    g = np.abs(np.abs(f - np.round(f)) - 0.5)
    g = np.where(p > 0, g, np.inf)
    return (f - n) @ H, g.min(axis=1)


# ----------------------------------------------------------------------------- Steinhardt vectors


def qlm(l, pos, H, ppp, nlists, weights=None):
    """Local vectors of one frame.
    nlists: list of integer arrays (0-based neighbour indices of particle i, in file order)
    weights: None or list of float arrays aligned with nlists.
    Returns dict(q=(N,2l+1) complex, eps=(N,) bound on the componentwise error a float64 implementation that
    goes through theta=arccos(z/r), phi=atan2(y,x) may make, tie=(N,) smallest distance of a bond from a half-cell tie,
    rmin=(N,) shortest bond)."""
    pos = np.asarray(pos, dtype=float)
    N = len(pos)
    q = np.zeros((N, 2 * l + 1), dtype=np.complex128)
    eps = np.zeros(N)
    tie = np.full(N, np.inf)
    rmin = np.full(N, np.inf)
    scale = float(np.abs(pos).max() + np.abs(H).max())
    D = grad_bound(l)
    for i in range(N):
        nb = np.asarray(nlists[i], dtype=int)
        vec, g = min_image(pos[nb] - pos[i], H, ppp)
        w = np.ones(len(nb)) if weights is None else np.asarray(weights[i], dtype=float)
        wf = w / w.sum()
        Y = ylm_cart(l, vec)
        q[i] = (wf[:, None] * Y).sum(axis=0)
        r = np.sqrt((vec * vec).sum(axis=1))
        st = np.hypot(vec[:, 0], vec[:, 1]) / r
        # rounding of the bond vector itself (difference of coordinates, h-matrix round trip)
        ddir = 64 * 2.3e-16 * scale / r
        # arccos(z/r): the rounding of z/r (<= 2 ulp) moves theta by <= 4.5e-16/sin(theta), capped by sqrt(2*2ulp);
        # a bond on the axis up to coordinate rounding gives z/r == 1 exactly, i.e. theta off by sin(theta) itself
        with np.errstate(divide="ignore"):
            dth = np.where(st <= 4 * ddir, st + 4 * ddir, np.minimum(3.0e-8, 4.5e-16 / st))
        eps[i] = 1e-11 + D * float((np.abs(wf) * (dth + ddir)).sum())
        tie[i] = g.min()
        rmin[i] = r.min()
    return {"q": q, "eps": eps, "tie": tie, "rmin": rmin}


def coarse(q, eps, nlists):
    N = len(q)
    Q = np.zeros_like(q)
    E = np.zeros(N)
    for i in range(N):
        nb = np.asarray(nlists[i], dtype=int)
        Q[i] = (q[i] + q[nb].sum(axis=0)) / (1 + len(nb))
        E[i] = (eps[i] + eps[nb].sum()) / (1 + len(nb))
    return Q, E


def norm(q):
    return np.sqrt((np.abs(q) ** 2).sum(axis=-1))


def ql(l, q):
    return np.sqrt(4.0 * math.pi / (2 * l + 1)) * norm(q)


def wl(l, q):
    """(w_l, w-hat_l, imaginary residue) for vectors q (..., 2l+1)."""
    idx, val = w3j_table(l)
    if len(val) == 0:
        z = np.zeros(q.shape[:-1])
        return z, z.copy(), z.copy()
    prod = q[..., idx[:, 0]] * q[..., idx[:, 1]] * q[..., idx[:, 2]]
    tot = (prod * val).sum(axis=-1)
    s = norm(q)
    with np.errstate(divide="ignore", invalid="ignore"):
        what = tot.real / s ** 3
    return tot.real, what, tot.imag


def sij(q, nlists):
    """list over particles of arrays s_ij (aligned with nlists)."""
    nq = norm(q)
    out = []
    for i, nb in enumerate(nlists):
        nb = np.asarray(nb, dtype=int)
        up = (q[i][None, :] * np.conj(q[nb])).sum(axis=1).real
        with np.errstate(divide="ignore", invalid="ignore"):
            out.append(up / (nq[i] * nq[nb]))
    return out


# ----------------------------------------------------------------------------- correlations


def vector_gr(pos, H, ppp, A, rdelta, lmin, volume):
    """Property C13, vector field: g_A(k) = V/N^2 * sum_{i != j, r_ij in bin k} Re sum_c A_ic conj(A_jc) / shell_k
    and the plain g(r) (A = 1).  Bins: nb = int(lmin/2/rdelta) equal bins on [0, nb*rdelta], last one closed.
    Returns dict(r, gr, gA, risky=(nb,) bool: some pair distance lies within 1e-9 (relative) of an edge of that
    bin, so membership is a matter of rounding)."""
    pos = np.asarray(pos, dtype=float)
    N = len(pos)
    nb = int(lmin / 2.0 / rdelta)
    edges = np.linspace(0.0, nb * rdelta, nb + 1)
    iu, ju = np.triu_indices(N, k=1)
    vec, _ = min_image(pos[ju] - pos[iu], H, ppp)
    dist = np.sqrt((vec * vec).sum(axis=1))
    wgt = (A[iu] * np.conj(A[ju])).sum(axis=1).real
    # bin k = [edges[k], edges[k+1]), the last one closed (vectorised: N of a few hundred gives 1e4..1e5 pairs)
    k = np.searchsorted(edges, dist, side="right") - 1
    k[dist == edges[-1]] = nb - 1
    inside = (k >= 0) & (k < nb)
    cnt = np.bincount(k[inside], minlength=nb).astype(float)
    sA = np.bincount(k[inside], weights=wgt[inside], minlength=nb)
    # a pair within 1e-9 (relative) of edge e makes the two bins sharing that edge a matter of rounding
    risky = np.zeros(nb, dtype=bool)
    j = np.clip(np.searchsorted(edges, dist), 0, nb)
    for cand in (np.clip(j - 1, 0, nb), j):
        near = np.abs(edges[cand] - dist) <= 1e-9 * (1.0 + dist)
        for e in np.unique(cand[near]):
            if e - 1 >= 0:
                risky[e - 1] = True
            if e < nb:
                risky[e] = True
    shell = 4.0 / 3.0 * math.pi * (edges[1:] ** 3 - edges[:-1] ** 3)
    fac = 2.0 * volume / (N * N)  # unordered pairs counted once -> factor 2 for i != j ordered
    return {"r": edges[1:] - 0.5 * rdelta, "gr": fac * cnt / shell, "gA": fac * sA / shell, "risky": risky,
            "scale": fac / shell}


def time_corr(series, timesteps, dt):
    """Property C14: series (T, N, c) complex.  Evenly spaced frames (all timestep differences equal, T >= 2):
    C(k) = mean over origins t0 of Re sum_{i,c} A(t0+k) conj A(t0); otherwise only the first frame is an origin.
    Normalised by C(0).  Returns (t, C)."""
    series = np.asarray(series)
    T = series.shape[0]
    ts = np.asarray(timesteps, dtype=float)
    even = T >= 2 and len(set(np.diff(np.asarray(timesteps)).tolist())) == 1
    C = np.zeros(T)
    for k in range(T):
        origins = range(T - k) if even else [0]
        vals = [float((series[t0 + k] * np.conj(series[t0])).sum().real) for t0 in origins]
        C[k] = sum(vals) / len(vals)
    return (ts - ts[0]) * dt, C / C[0]


# ----------------------------------------------------------------------------- reference environments


def _rows(*v):
    return np.array(v, dtype=float)


def shell(name):
    """Neighbour vectors of the ideal environments (unnormalised lengths, centre at the origin)."""
    if name == "fcc":
        return _rows(*[p for p in _signed_perms((1, 1, 0))])
    if name == "bcc8":
        return _rows(*_signed_perms((1, 1, 1)))
    if name == "bcc14":
        return _rows(*(_signed_perms((1, 1, 1)) + _signed_perms((2, 0, 0))))
    if name == "sc":
        return _rows(*_signed_perms((1, 0, 0)))
    if name == "hcp":
        c = math.sqrt(8.0 / 3.0)
        s3 = math.sqrt(3.0)
        plane = [(math.cos(k * math.pi / 3), math.sin(k * math.pi / 3), 0.0) for k in range(6)]
        up = [(0.5, s3 / 6, c / 2), (-0.5, s3 / 6, c / 2), (0.0, -s3 / 3, c / 2)]
        dn = [(a, b, -cc) for a, b, cc in up]
        return _rows(*(plane + up + dn))
    if name == "ico":
        g = (1.0 + math.sqrt(5.0)) / 2.0
        v = []
        for s1 in (1, -1):
            for s2 in (1, -1):
                v += [(0, s1 * 1, s2 * g), (s1 * 1, s2 * g, 0), (s2 * g, 0, s1 * 1)]
        return _rows(*v)
    raise KeyError(name)


def _signed_perms(t):
    import itertools
    out = set()
    for p in itertools.permutations(t):
        for s in itertools.product((1, -1), repeat=3):
            out.add(tuple(a * b for a, b in zip(p, s)))
    return sorted(out)


# Tabulated values of the ideal environments (Steinhardt et al. 1983, Table I; Mickel et al., J. Chem. Phys. 138,
# 044501 (2013), Table I).  None = undefined (q_l = 0).
TABLE = {
    "fcc": {"cn": 12, "q4": 0.190941, "q6": 0.574524, "w4": -0.159317, "w6": -0.013161},
    "hcp": {"cn": 12, "q4": 0.097222, "q6": 0.484762, "w4": 0.134097, "w6": -0.012442},
    "bcc8": {"cn": 8, "q4": 0.509175, "q6": 0.628539, "w4": -0.159317, "w6": 0.013161},
    "bcc14": {"cn": 14, "q4": 0.036370, "q6": 0.510688, "w4": 0.159317, "w6": 0.013161},
    "sc": {"cn": 6, "q4": 0.763763, "q6": 0.353553, "w4": 0.159317, "w6": 0.013161},
    "ico": {"cn": 12, "q4": 0.0, "q6": 0.663325, "w4": None, "w6": -0.169754},
}
