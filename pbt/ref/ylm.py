"""Independent reference for the orthonormal Condon-Shortley spherical harmonics

    Y_lm(theta, phi) = sqrt((2l+1)/(4 pi) (l-m)!/(l+m)!) P_l^m(cos theta) e^{i m phi},
    P_l^m(x) = (-1)^m (1-x^2)^{m/2} d^m/dx^m P_l(x)        (theta polar, phi azimuth)

written from the definition: the fully normalised associated Legendre functions
N_l^m(theta) = sqrt((2l+1)/(4 pi) (l-m)!/(l+m)!) P_l^m(cos theta) obey (m >= 0)

    N_0^0     = 1/sqrt(4 pi)
    N_m^m     = -sqrt((2m+1)/(2m)) sin(theta) N_{m-1}^{m-1}                       (sectoral seed)
    N_{m+1}^m = sqrt(2m+3) cos(theta) N_m^m
    N_l^m     = a_lm (cos(theta) N_{l-1}^m - b_lm N_{l-2}^m),
                a_lm = sqrt((4 l^2 - 1)/(l^2 - m^2)),  b_lm = sqrt(((l-1)^2 - m^2)/(4 (l-1)^2 - 1))

which is the forward-stable (increasing l at fixed m) three-term recurrence; no factorials, no
cancellation of large polynomial coefficients.  sin(theta) is used directly (never sqrt(1-x^2)) so the
values stay accurate next to the poles.  Negative orders: Y_{l,-m} = (-1)^m conj(Y_lm).

numpy only.  `ylm_mp` is a 30-digit evaluation with mpmath (its own hypergeometric Legendre code), used
as a third opinion on a subsample.
"""
from __future__ import annotations

import numpy as np


def norm_legendre(lmax: int, theta):
    """N[l, m] (0 <= m <= l <= lmax) at polar angle(s) theta; returns array (lmax+1, lmax+1) + theta.shape."""
    theta = np.asarray(theta, dtype=np.float64)
    x = np.cos(theta)
    s = np.sin(theta)
    N = np.zeros((lmax + 1, lmax + 1) + theta.shape, dtype=np.float64)
    N[0, 0] = 1.0 / np.sqrt(4.0 * np.pi)
    for m in range(1, lmax + 1):
        N[m, m] = -np.sqrt((2.0 * m + 1.0) / (2.0 * m)) * s * N[m - 1, m - 1]
    for m in range(0, lmax):
        N[m + 1, m] = np.sqrt(2.0 * m + 3.0) * x * N[m, m]
        for l in range(m + 2, lmax + 1):
            a = np.sqrt((4.0 * l * l - 1.0) / (l * l - m * m))
            b = np.sqrt(((l - 1.0) ** 2 - m * m) / (4.0 * (l - 1.0) ** 2 - 1.0))
            N[l, m] = a * (x * N[l - 1, m] - b * N[l - 2, m])
    return N


def ylm_table(lmax: int, theta, phi):
    """dict l -> complex array theta.shape + (2l+1,), orders m = -l..l, for l = 0..lmax."""
    theta = np.asarray(theta, dtype=np.float64)
    phi = np.asarray(phi, dtype=np.float64)
    theta, phi = np.broadcast_arrays(theta, phi)
    N = norm_legendre(lmax, theta)
    out = {}
    # e^{i m phi} from cos/sin of m*phi (one rounding of m*phi; m <= 20 so the argument error is <= 20 ulp(phi))
    for l in range(lmax + 1):
        Y = np.zeros(theta.shape + (2 * l + 1,), dtype=np.complex128)
        for m in range(0, l + 1):
            e = np.cos(m * phi) + 1j * np.sin(m * phi)
            v = N[l, m] * e
            Y[..., l + m] = v
            if m:
                Y[..., l - m] = (-1.0) ** m * np.conj(v)
        out[l] = Y
    return out


def ylm(l: int, theta, phi):
    """Y_lm for m = -l..l, shape theta.shape + (2l+1,)."""
    return ylm_table(l, theta, phi)[l]


def ylm_mp(l: int, theta: float, phi: float, dps: int = 30):
    """Same vector from mpmath at `dps` digits (theta, phi taken as the exact doubles given)."""
    import mpmath

    with mpmath.workdps(dps):
        t = mpmath.mpf(float(theta))
        p = mpmath.mpf(float(phi))
        vals = [complex(mpmath.spherharm(l, m, t, p)) for m in range(-l, l + 1)]
    return np.array(vals, dtype=np.complex128)
