"""Independent geometry reference: fractional coordinates, minimum image (contract of C02),
pair tables.  No import of PyMatterSim."""
from __future__ import annotations

import numpy as np

TIE_EPS = 1e-9


def frac_coords(R, H):
    """R = f . H  (rows of H are the cell vectors)  ->  f"""
    R = np.atleast_2d(np.asarray(R, dtype=float))
    return np.linalg.solve(np.asarray(H, dtype=float).T, R.T).T


def min_image(R, H, ppp=None):
    """Fractional-rounding minimum image.  Returns (vectors, tie) where tie[i] is True when some
    periodic fractional component of R[i] is within TIE_EPS of a half-integer (either image is valid)."""
    H = np.asarray(H, dtype=float)
    d = H.shape[0]
    ppp = np.ones(d) if ppp is None else np.asarray(ppp, dtype=float)
    f = frac_coords(R, H)
    n = np.floor(f + 0.5) * ppp
    tie = (np.abs(np.abs(f - np.round(f)) - 0.5) < TIE_EPS) & (ppp > 0)
    return (f - n) @ H, tie.any(axis=1)


def pair_table(pos, H, ppp=None):
    """All ordered pairs i != j: returns (i, j, vec_ij = r_j - r_i (min image), dist, tie)."""
    pos = np.asarray(pos, dtype=float)
    N = pos.shape[0]
    ii, jj = np.nonzero(~np.eye(N, dtype=bool))
    vec, tie = min_image(pos[jj] - pos[ii], H, ppp)
    return ii, jj, vec, np.sqrt((vec * vec).sum(axis=1)), tie


def lammps_bounds(H, lo):
    """Triclinic LAMMPS bound lines from real lo and lower-triangular H (rows a,b,c).
    Returns (boxbounds[d,2] = *_bound values, tilts (xy,xz,yz), realbounds[d,2])."""
    H = np.asarray(H, dtype=float)
    lo = np.asarray(lo, dtype=float)
    d = H.shape[0]
    hi = lo + np.diag(H)
    xy = H[1, 0]
    xz = H[2, 0] if d == 3 else 0.0
    yz = H[2, 1] if d == 3 else 0.0
    b = np.zeros((d, 2))
    b[0] = [lo[0] + min(0.0, xy, xz, xy + xz), hi[0] + max(0.0, xy, xz, xy + xz)]
    b[1] = [lo[1] + min(0.0, yz), hi[1] + max(0.0, yz)]
    if d == 3:
        b[2] = [lo[2], hi[2]]
    return b, (xy, xz, yz), np.stack([lo, hi], axis=1)


def volume(H):
    return abs(np.linalg.det(np.asarray(H, dtype=float)))
