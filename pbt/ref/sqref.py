"""Independent reference for the static structure factor S(q) (property C04).

Written from the definition in the property statement / docs/sq.md:
    rho_a(q) = sum_{i in a} exp(-i q.r_i),   q = 2 pi n / L   (n integer vector, L box edges)
    S_ab(q)  = < Re[rho_a(q) rho_b(-q)] > / sqrt(N_a N_b),   S(q) = < |rho(q)|^2 > / N
    per-vector values rounded to 1e-6, then averaged over all supplied vectors with equal |q|
    (|q| compared after rounding to 6 decimals).
No import of PyMatterSim.
"""
from __future__ import annotations

import itertools
from math import isqrt, pi

import numpy as np

BOUNDARY_EPS = 1e-12  # |q| closer than this to a 6-decimal rounding boundary -> grouping is ambiguous


def default_vectors(d, numofq, onlypositive=False):
    """All non-zero integer vectors with components in the half-open range [-h, h), h = numofq // 2,
    whose norm is an integer; then the documented filter:
      True -> all components >= 0;  'x'/'y'/'z' -> positive multiples of that axis unit vector.
    Returns a sorted list of tuples (no repeats)."""
    h = int(numofq) // 2
    out = []
    for n in itertools.product(range(-h, h), repeat=d):
        s = sum(c * c for c in n)
        if s == 0:
            continue
        r = isqrt(s)
        if r * r != s:
            continue
        if onlypositive is True:
            if min(n) < 0:
                continue
        elif onlypositive in ("x", "y", "z"):
            ax = "xyz".index(onlypositive)
            if ax >= d:
                raise ValueError("axis outside the dimension")
            if n[ax] <= 0 or any(c != 0 for k, c in enumerate(n) if k != ax):
                continue
        out.append(tuple(int(c) for c in n))
    return sorted(out)


def default_vectors_large(d, numofq, onlypositive=False):
    """Same set as default_vectors, for large ranges: exact integer arithmetic on int64 arrays (squared norm, integer
    square root by a floating estimate corrected by +-1, r*r == s), no floating-point comparison decides membership."""
    h = int(numofq) // 2
    ax = np.arange(-h, h, dtype=np.int64)
    grids = np.meshgrid(*([ax] * d), indexing="ij")
    n = np.stack([g.ravel() for g in grids], axis=1)
    s2 = (n * n).sum(axis=1)
    r = np.sqrt(s2.astype(np.float64)).astype(np.int64)
    r = np.where(r * r > s2, r - 1, r)
    r = np.where((r + 1) * (r + 1) <= s2, r + 1, r)
    keep = (r * r == s2) & (s2 > 0)
    if onlypositive is True:
        keep &= n.min(axis=1) >= 0
    elif onlypositive in ("x", "y", "z"):
        a = "xyz".index(onlypositive)
        if a >= d:
            raise ValueError("axis outside the dimension")
        others = np.delete(n, a, axis=1)
        keep &= (n[:, a] > 0) & ~others.any(axis=1)
    return sorted(tuple(int(c) for c in row) for row in n[keep])


def column_names(K):
    """Documented column layout: q, Sq, then the diagonal partials, then the cross terms a<b.
    More than five species -> only the total."""
    if K == 1 or K > 5:
        return ["q", "Sq"]
    diag = [f"Sq{a}{a}" for a in range(1, K + 1)]
    cross = [f"Sq{a}{b}" for a in range(1, K + 1) for b in range(a + 1, K + 1)]
    return ["q", "Sq"] + diag + cross


def wave_vectors(nvec, L):
    nvec = np.asarray(nvec, dtype=np.int64).astype(np.float64)
    L = np.asarray(L, dtype=np.float64)
    q = nvec * (2.0 * pi / L)[None, :]
    return q, np.sqrt((q * q).sum(axis=1))


def frame_labels(types, T):
    """`types` is either one label array (the same labels in every frame) or a sequence of T label arrays (one per
    frame: swap Monte Carlo / `fix atom/swap` trajectories).  Returns a list of T integer arrays.  The composition
    (number of particles of every species) must be the same in all frames: that is the documented precondition under
    which N_a is a property of the trajectory."""
    if isinstance(types, (list, tuple)) or (isinstance(types, np.ndarray) and types.ndim == 2):
        tl = [np.asarray(t).astype(np.int64) for t in types]
        if len(tl) != T:
            raise ValueError(f"{len(tl)} label arrays for {T} frames")
    else:
        tl = [np.asarray(types).astype(np.int64)] * T
    K = int(tl[0].max())
    c0 = np.bincount(tl[0], minlength=K + 1)
    for t in tl[1:]:
        if t.shape != tl[0].shape or not np.array_equal(np.bincount(t, minlength=K + 1), c0):
            raise ValueError("composition differs between frames")
    return tl


def per_vector(frames, types, nvec, L):
    """Per supplied wave vector (row order of nvec): dict column -> array(M), frame averaged, unrounded.
    Keys: 'q', 'Sq', and 'Sqab' for all 1 <= a <= b <= K (every K, also > 5).
    `types`: one label array or one per frame (see frame_labels); species a of frame k are the particles
    labelled a IN FRAME k."""
    labels = frame_labels(types, len(frames))
    q, qn = wave_vectors(nvec, L)
    K = int(labels[0].max())
    counts = np.array([(labels[0] == a).sum() for a in range(1, K + 1)], dtype=float)
    N = float(len(labels[0]))
    M = len(qn)
    acc_tot = np.zeros(M)
    acc = np.zeros((K, K, M))
    for pos, lab in zip(frames, labels):
        sel = np.stack([(lab == a) for a in range(1, K + 1)]).astype(float)  # (K, N), this frame's labels
        phase = np.asarray(pos, dtype=float) @ q.T  # (N, M)
        e = np.cos(phase) - 1j * np.sin(phase)
        rho_a = sel @ e  # (K, M)
        rho = e.sum(axis=0)
        acc_tot += rho.real ** 2 + rho.imag ** 2
        # Re[rho_a(q) rho_b(-q)] with rho_b(-q) = conj(rho_b(q)) for real positions
        acc += rho_a.real[:, None, :] * rho_a.real[None, :, :] + rho_a.imag[:, None, :] * rho_a.imag[None, :, :]
    T = float(len(frames))
    out = {"q": qn, "Sq": acc_tot / (T * N)}
    for a in range(K):
        for b in range(a, K):
            out[f"Sq{a + 1}{b + 1}"] = acc[a, b] / (T * np.sqrt(counts[a] * counts[b]))
    return out, counts


def boundary_ambiguous(qn, eps=BOUNDARY_EPS):
    """True when some |q| lies within eps of a 6-decimal rounding boundary (k + 1/2) * 1e-6."""
    x = np.asarray(qn, dtype=float) * 1e6
    fr = x - np.floor(x)
    return bool(np.any(np.abs(fr - 0.5) < eps * 1e6))


def grouped(pv, cols):
    """Emulate the documented post-processing: round per-vector values to 1e-6, group by |q| rounded to 6
    decimals, average.  Returns (dict column -> array(G) sorted by q, group sizes)."""
    key = np.round(pv["q"], 6)
    uniq, inv, cnt = np.unique(key, return_inverse=True, return_counts=True)
    out = {"q": uniq}
    for c in cols:
        if c == "q":
            continue
        v = np.round(pv[c], 6)
        out[c] = np.bincount(inv, weights=v, minlength=len(uniq)) / cnt
    return out, cnt
