"""Independent reference for pair histograms / pair correlation functions (C03, C13).

Written from the definition
    g_ab(r_k) = V / (N_a N_b) * < #{ordered pairs i != j, i in a, j in b, |r_ij| in bin k} > / shell_k
with the fractional-rounding minimum image of `geom.min_image` and bins [k w, (k+1) w), k = 0..n-1, the right
edge of the last bin included.  Bin membership is discontinuous in the distance, so every pair carries a *set of
possible outcomes*: the bins whose closed interval, widened by `band`, contains the distance, plus "outside" when the
distance may exceed the last edge.  A pair with exactly one possible outcome is definite; the others are ambiguous
and contribute to the upper (or, for negative weights, lower) bound only.  Half-cell minimum-image ties contribute the
outcomes of every tied image.  No import of PyMatterSim.
"""
from __future__ import annotations

import itertools
from fractions import Fraction

import numpy as np

from . import geom

BAND_REL = 1e-9


# ----------------------------------------------------------------------------- number of bins


def nbins_allowed(lmin, width):
    """int(L_min / (2 width)) as the property writes it, evaluated in double precision, as a set of admissible values
    (a single one).

    Earlier versions admitted both m-1 and m whenever the exact rational quotient of the two doubles lay within 1e-9
    of an integer m, on the grounds that "rounding noise of whichever float expression a caller uses" decides the
    floor.  That was too generous: every evaluation order built from true divisions -- L/2/w, L/(2w), L/w/2, 0.5*L/w --
    is the correctly rounded quotient of the SAME real number (doubling and halving are exact), so they all give the
    same double and hence the same integer; L = 10, w = 0.1 gives 50 bins under each of them, which is also what a
    user expects.  Only a different operation (floor division, reciprocal multiplication, decimal arithmetic) can give
    49 there, and that is a visible change of the documented bin count (independent breaking change C03-C).
    The float quotient below is computed from the two doubles with one division; no library code is involved."""
    q = float(lmin) / (2.0 * float(width))
    return {int(q)}


def nbins_nominally_integer(lmin, width):
    """True when the exact quotient of the two doubles is within 1e-9 (relative) of an integer: the class of inputs in
    which floor division / reciprocal multiplication / truncation differ from true division."""
    q = Fraction(float(lmin)) / (2 * Fraction(float(width)))
    m = int(round(q))
    return abs(q - m) <= Fraction(1, 10**9) * max(q, 1)


def shell_volumes(nbin, width, d):
    """Ideal shell volume (3D) / area (2D) of the bins [k w, (k+1) w)."""
    e = width * np.arange(nbin + 1, dtype=float)
    if d == 3:
        return 4.0 * np.pi / 3.0 * (e[1:] ** 3 - e[:-1] ** 3)
    if d == 2:
        return np.pi * (e[1:] ** 2 - e[:-1] ** 2)
    raise ValueError("d must be 2 or 3")


def bin_centres(nbin, width):
    return width * (np.arange(nbin, dtype=float) + 0.5)


# ----------------------------------------------------------------------------- outcomes of one distance


def outcomes(r, width, nbin, band):
    """bool array (len(r), nbin + 1): column k < nbin = 'may be counted in bin k', column nbin = 'may be outside'."""
    r = np.asarray(r, dtype=float).reshape(-1)
    e = width * np.arange(nbin + 1, dtype=float)
    C = np.zeros((len(r), nbin + 1), dtype=bool)
    C[:, :nbin] = (r[:, None] >= e[None, :-1] - band) & (r[:, None] <= e[None, 1:] + band)
    C[:, nbin] = r >= e[-1] - band
    return C


def _tie_distances(R, H, ppp):
    """All candidate lengths of one displacement whose fractional coordinates are tied on some periodic axis."""
    H = np.asarray(H, dtype=float)
    d = H.shape[0]
    f = geom.frac_coords(R, H)[0]
    opts = []
    for a in range(d):
        if not ppp[a]:
            opts.append([0.0])
        elif abs(abs(f[a] - np.round(f[a])) - 0.5) < geom.TIE_EPS:
            m = np.round(f[a] - 0.5)
            opts.append([m, m + 1.0])
        else:
            opts.append([np.floor(f[a] + 0.5)])
    out = []
    for n in itertools.product(*opts):
        v = (f - np.array(n)) @ H
        out.append(float(np.sqrt((v * v).sum())))
    return out


def pair_outcomes(pos, H, ppp, width, nbin, band):
    """Unordered pairs i < j of one configuration.

    Returns (ii, jj, C, definite, ntie): C[p] is the outcome set of pair p (see `outcomes`), definite[p] is True when
    exactly one outcome is possible."""
    pos = np.asarray(pos, dtype=float)
    N = pos.shape[0]
    ii, jj = np.triu_indices(N, k=1)
    disp = pos[jj] - pos[ii]
    vec, tie = geom.min_image(disp, H, ppp)
    dist = np.sqrt((vec * vec).sum(axis=1))
    C = outcomes(dist, width, nbin, band)
    for p in np.nonzero(tie)[0]:
        row = np.zeros(nbin + 1, dtype=bool)
        for r in _tie_distances(disp[p:p + 1], H, np.asarray(ppp)):
            row |= outcomes([r], width, nbin, band)[0]
        C[p] = row
    definite = C.sum(axis=1) == 1
    return ii, jj, C, definite, int(tie.sum())


def weighted_bounds(C, definite, w):
    """Lower / upper bound of sum_p w_p [pair p in bin k] over the admissible assignments, per bin."""
    w = np.asarray(w, dtype=float)
    nb = C.shape[1] - 1
    Cd = C[definite, :nb]
    Ca = C[~definite, :nb]
    base = (Cd * w[definite][:, None]).sum(axis=0)
    wa = w[~definite][:, None]
    lo = base + (Ca * np.minimum(wa, 0.0)).sum(axis=0)
    hi = base + (Ca * np.maximum(wa, 0.0)).sum(axis=0)
    return lo, hi


# ----------------------------------------------------------------------------- partial pair correlation functions


def column_names(K):
    """The documented column layout: r, gr, then gr11..grKK, then the cross terms in lexicographic order."""
    if K > 5:
        return ["r", "gr"]
    if K == 1:
        return ["r", "gr"]
    same = [f"gr{a}{a}" for a in range(1, K + 1)]
    cross = [f"gr{a}{b}" for a in range(1, K + 1) for b in range(a + 1, K + 1)]
    return ["r", "gr"] + same + cross


def partial_gr_bounds(frames, H, ppp, types, width, nbin, band):
    """Reference intervals for the total and every partial pair correlation function.

    frames: list of (N, d) position arrays.  H: one cell matrix, or a list with one matrix per frame (sheared
    trajectories: frame k is reduced with its own cell; the volume must be the same in all frames).  types: one label
    array, or a list with one label array per frame (same composition).  Returns dict with
      'lo', 'hi'   : {key: array(nbin)}  key = 'gr' or (a, b) with a <= b (type ids)
      'cnt_lo/hi'  : unordered pair counts summed over frames, same keys
      'ambiguous'  : number of ambiguous pairs, 'ties': number of tied pairs
    """
    T = len(frames)
    Hs = [np.asarray(h, dtype=float) for h in H] if isinstance(H, (list, tuple)) else [np.asarray(H, dtype=float)] * T
    if len(Hs) != T:
        raise ValueError("one cell matrix per frame expected")
    d = Hs[0].shape[0]
    # species labels: one array (the same labels in every frame) or one array per frame (swap Monte Carlo,
    # `fix atom/swap`): species a of frame k are the particles labelled a IN FRAME k; the counts N_a are a property of
    # the trajectory, so the composition must be the same in all frames
    if isinstance(types, (list, tuple)) or (isinstance(types, np.ndarray) and types.ndim == 2):
        labels = [np.asarray(t).astype(np.int64) for t in types]
        if len(labels) != T:
            raise ValueError(f"{len(labels)} label arrays for {T} frames")
        for t in labels[1:]:
            if t.shape != labels[0].shape or not np.array_equal(np.sort(t), np.sort(labels[0])):
                raise ValueError("composition differs between frames")
    else:
        labels = [np.asarray(types).astype(np.int64)] * T
    types = labels[0]
    N = len(types)
    V = geom.volume(Hs[0])
    if any(abs(geom.volume(h) - V) > 1e-12 * V for h in Hs):
        raise ValueError("cell volume differs between frames")
    kinds = sorted(set(int(t) for t in types))
    n_of = {a: int((types == a).sum()) for a in kinds}
    keys = ["gr"] + [(a, b) for a in kinds for b in kinds if a <= b]
    cnt_lo = {k: np.zeros(nbin) for k in keys}
    cnt_hi = {k: np.zeros(nbin) for k in keys}
    namb = nties = 0
    for pos, Hk, lab in zip(frames, Hs, labels):
        ii, jj, C, definite, nt = pair_outcomes(pos, Hk, ppp, width, nbin, band)
        nties += nt
        namb += int((~definite).sum())
        ta = np.minimum(lab[ii], lab[jj])
        tb = np.maximum(lab[ii], lab[jj])
        ones = np.ones(len(ii))
        lo, hi = weighted_bounds(C, definite, ones)
        cnt_lo["gr"] += lo
        cnt_hi["gr"] += hi
        for (a, b) in keys[1:]:
            sel = (ta == a) & (tb == b)
            if not sel.any():
                continue
            lo, hi = weighted_bounds(C[sel], definite[sel], ones[sel])
            cnt_lo[(a, b)] += lo
            cnt_hi[(a, b)] += hi
    shell = shell_volumes(nbin, width, d)
    out_lo, out_hi = {}, {}
    for k in keys:
        if k == "gr":
            # ordered pairs = 2 x unordered
            fac = V / (N * N) * 2.0
        else:
            a, b = k
            # ordered (i in a, j in b): 2 x unordered for a == b, 1 x unordered cross pairs for a != b
            fac = V / (n_of[a] * n_of[b]) * (2.0 if a == b else 1.0)
        out_lo[k] = fac * cnt_lo[k] / T / shell
        out_hi[k] = fac * cnt_hi[k] / T / shell
    return {"lo": out_lo, "hi": out_hi, "cnt_lo": cnt_lo, "cnt_hi": cnt_hi, "ambiguous": namb, "ties": nties,
            "shell": shell, "V": V, "n_of": n_of}
