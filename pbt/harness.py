"""Common machinery: facets, Hypothesis settings, case recording, failure capture.

A *facet* is one independent generated-input test of one region of a property's
quantifier.  `fn` facets draw a picklable `case` from a strategy and call
`check(case)`; `machine` facets are Hypothesis RuleBasedStateMachines whose steps
are logged so that a failing history can be replayed without Hypothesis.

check(case) returns a dict: {"nontrivial": bool, "tags": [str, ...]} and raises
`Violation` when the oracle disagrees with the code under test.  Exceptions that
originate inside PyMatterSim are converted into Violations (the properties promise
a value on every generated input); any other exception is a harness error.
"""
from __future__ import annotations

import base64
import hashlib
import json
import logging
import os
import pickle
import sys
import time
import traceback

VERIF = os.path.dirname(os.path.dirname(os.path.abspath(__file__)))
REPO = os.path.abspath(os.environ.get("VERIF_REPO", "/repo"))

if REPO not in sys.path:
    sys.path.insert(0, REPO)
logging.disable(logging.CRITICAL)

import hypothesis  # noqa: E402
from hypothesis import HealthCheck, Phase, Verbosity, given, settings  # noqa: E402
from hypothesis.stateful import RuleBasedStateMachine, run_state_machine_as_test  # noqa: E402


# When True, checks must not exclude the input classes of KNOWN_FINDINGS.json (used to replay a known finding).
STRICT = bool(int(os.environ.get("VERIF_STRICT", "0")))
# Journal mode (set by the runner when it re-runs a shard whose worker process died): the case about to be evaluated
# is written to this path first, so that the input on which the code under test terminated the interpreter
# (a C library calling exit(), a segmentation fault) can be saved as a replay file.
JOURNAL = None


def journal(case):
    if JOURNAL:
        try:
            with open(JOURNAL + ".tmp", "wb") as f:
                pickle.dump(case, f, protocol=4)
            os.replace(JOURNAL + ".tmp", JOURNAL)
        except Exception:  # noqa: BLE001  (an unpicklable case must not turn into a failure of its own)
            pass


class Violation(AssertionError):
    """The code under test disagrees with the oracle of a listed property."""


class HarnessError(Exception):
    """The harness itself misbehaved (strategy bug, oracle bug, health check)."""


def seed_for(base_seed: int, prop: str, facet: str, shard: int) -> int:
    h = hashlib.sha256(f"{base_seed}|{prop}|{facet}|{shard}".encode()).digest()
    return int.from_bytes(h[:8], "big")


def case_hash(case) -> str:
    try:
        data = pickle.dumps(case, protocol=4)
    except Exception:  # pragma: no cover - cases are designed to be picklable
        data = repr(case).encode()
    return hashlib.sha1(data).hexdigest()


def _is_cut_frame(filename: str) -> bool:
    fn = os.path.abspath(filename)
    return fn.startswith(os.path.join(REPO, "PyMatterSim") + os.sep)


def exception_from_cut(exc: BaseException) -> bool:
    """True when some frame of the traceback lies inside the code under test."""
    tb = exc.__traceback__
    frames = traceback.extract_tb(tb)
    return any(_is_cut_frame(fr.filename) for fr in frames)


def cut_bucket(exc: BaseException) -> str:
    frames = [fr for fr in traceback.extract_tb(exc.__traceback__) if _is_cut_frame(fr.filename)]
    if not frames:
        return type(exc).__name__
    fr = frames[-1]
    return f"{type(exc).__name__}@{os.path.relpath(fr.filename, REPO)}:{fr.name}"


def short_repr(obj, limit=900):
    import numpy as np

    with np.printoptions(precision=6, threshold=40, edgeitems=3, linewidth=200):
        s = repr(obj)
    if len(s) > limit:
        s = s[:limit] + f"...(+{len(s) - limit} chars)"
    return s


TRACE_CASES = int(os.environ.get("VERIF_TRACE_CASES", "25"))
_CUT_PREFIX = os.path.join(REPO, "PyMatterSim") + os.sep


class LineTracer:
    """Collects the (file, line) pairs of the code under test executed while active (first few cases of a facet
    only): evidence that the generator reaches the anchored regions."""

    def __init__(self):
        self.lines = set()
        self._prev = None

    def _local(self, frame, event, arg):
        if event == "line":
            self.lines.add((frame.f_code.co_filename, frame.f_lineno))
        return self._local

    def _global(self, frame, event, arg):
        fn = frame.f_code.co_filename
        if fn.startswith(_CUT_PREFIX):
            self.lines.add((fn, frame.f_lineno))
            return self._local
        return None

    def __enter__(self):
        self._prev = sys.gettrace()
        sys.settrace(self._global)
        return self

    def __exit__(self, *a):
        sys.settrace(self._prev)
        return False

    def summary(self):
        by = {}
        for fn, ln in self.lines:
            by.setdefault(os.path.relpath(fn, REPO), set()).add(ln)
        return {k: sorted(v) for k, v in by.items()}


def compress_lines(lines):
    out, start, prev = [], None, None
    for n in sorted(lines):
        if start is None:
            start = prev = n
        elif n == prev + 1:
            prev = n
        else:
            out.append(f"{start}-{prev}" if prev > start else str(start))
            start = prev = n
    if start is not None:
        out.append(f"{start}-{prev}" if prev > start else str(start))
    return ",".join(out)


class Facet:
    def __init__(self, name, strategy=None, check=None, machine=None, quick=100, thorough=2000,
                 rule="", describe=None, steps=12, exhaustive=False, shards_thorough=None, shards_quick=1,
                 quick_budget_s=60.0, thorough_budget_s=900.0):
        self.name = name
        self.strategy = strategy
        self.check = check
        self.machine = machine
        self.quick = quick
        self.thorough = thorough
        self.rule = rule
        self.describe = describe
        self.steps = steps
        self.exhaustive = exhaustive  # strategy-free finite enumeration: check(None) does everything
        self.shards_thorough = shards_thorough
        self.shards_quick = shards_quick
        self.quick_budget_s = quick_budget_s
        self.thorough_budget_s = thorough_budget_s

    @property
    def kind(self):
        if self.exhaustive:
            return "enum"
        return "machine" if self.machine is not None else "fn"


class Recorder:
    def __init__(self, budget_s, max_samples=3, shrink_calls=400, shrink_s=45.0):
        self.t0 = time.time()
        self.budget_s = budget_s
        self.evaluations = 0
        self.nontrivial = set()
        self.tags = {}
        self.samples = []
        self.max_samples = max_samples
        self.truncated = False
        self.failure = None  # (case, message, bucket)
        self.fail_calls = 0
        self.fail_t0 = None
        self.shrink_calls = shrink_calls
        self.shrink_s = shrink_s
        self.best_hash = None
        self.extra = {}
        self.tracer = LineTracer()
        self.traced = 0

    def expired(self):
        return time.time() - self.t0 > self.budget_s

    def shrink_exhausted(self):
        return self.failure is not None and (
            self.fail_calls > self.shrink_calls or time.time() - self.fail_t0 > self.shrink_s)

    def record(self, case, info, describe):
        self.evaluations += 1
        info = info or {}
        for t in info.get("tags", ()):  # class histogram
            self.tags[t] = self.tags.get(t, 0) + 1
        for k, v in (info.get("extra") or {}).items():
            self.extra[k] = self.extra.get(k, 0) + v
        if info.get("nontrivial"):
            h = case_hash(case)
            if h not in self.nontrivial:
                self.nontrivial.add(h)
                if len(self.samples) < self.max_samples:
                    try:
                        self.samples.append(describe(case) if describe else short_repr(case))
                    except Exception as e:  # pragma: no cover
                        self.samples.append(f"<undescribable: {e}>")

    def note_failure(self, case, message, bucket):
        if self.failure is None:
            self.fail_t0 = time.time()
        self.fail_calls += 1
        self.failure = (case, message, bucket)
        self.best_hash = case_hash(case)


def _settings(n, shrink, steps=None):
    phases = [Phase.explicit, Phase.generate]
    if shrink:
        phases.append(Phase.shrink)
    kw = dict(max_examples=n, database=None, deadline=None, derandomize=False,
              report_multiple_bugs=False, print_blob=False, phases=tuple(phases),
              verbosity=Verbosity.quiet,
              suppress_health_check=[HealthCheck.too_slow, HealthCheck.data_too_large,
                                     HealthCheck.large_base_example])
    if steps is not None:
        kw["stateful_step_count"] = steps
    return settings(**kw)


def guarded_check(check, case):
    """Run check; map exceptions to Violation / HarnessError."""
    try:
        return check(case)
    except Violation:
        raise
    except hypothesis.errors.HypothesisException:
        raise
    except Exception as e:  # noqa: BLE001
        if exception_from_cut(e):
            tb = "".join(traceback.format_exception(type(e), e, e.__traceback__)[-6:])
            v = Violation(f"code under test raised {cut_bucket(e)}: {e}\n{tb}")
            v.bucket = cut_bucket(e)
            raise v from e
        raise HarnessError(f"{type(e).__name__}: {e}\n" + traceback.format_exc()) from e


def run_fn_facet(facet: Facet, n: int, hseed: int, budget_s: float, shrink=True):
    rec = Recorder(budget_s)

    @hypothesis.seed(hseed)
    @_settings(n, shrink)
    @given(facet.strategy)
    def test(case):
        if rec.failure is None and rec.expired():
            rec.truncated = True
            return
        if rec.shrink_exhausted() and case_hash(case) != rec.best_hash:
            return
        journal(case)
        try:
            if rec.failure is None and rec.traced < TRACE_CASES:
                rec.traced += 1
                with rec.tracer:
                    info = guarded_check(facet.check, case)
            else:
                info = guarded_check(facet.check, case)
        except Violation as v:
            rec.note_failure(case, str(v), getattr(v, "bucket", "oracle"))
            raise
        if rec.failure is None:
            rec.record(case, info, facet.describe)

    try:
        test()
    except Violation:
        pass
    except HarnessError:
        raise
    except hypothesis.errors.HypothesisException as e:
        if rec.failure is None:
            raise HarnessError(f"hypothesis: {type(e).__name__}: {e}") from e
    return rec


class RecordingMachine(RuleBasedStateMachine):
    """Base class for history facets.  Rules call `self.step(name, **kw)` first so that the
    history is logged in replayable form; `replay(log)` re-executes it without Hypothesis."""

    CURRENT = None

    def __init__(self):
        super().__init__()
        self.log = []
        self.info = {"nontrivial": False, "tags": []}
        type(self).CURRENT = self
        RecordingMachine.CURRENT = self

    def step(self, name, **kw):
        self.log.append((name, kw))
        journal(list(self.log))

    def tag(self, t):
        self.info["tags"].append(t)

    @classmethod
    def replay(cls, log):
        m = cls()
        try:
            for name, kw in log:
                getattr(m, "do_" + name)(**kw)
                m.check_invariants_now()
        finally:
            m.teardown()
        return m.info

    def check_invariants_now(self):
        pass


def run_machine_facet(facet: Facet, n: int, hseed: int, budget_s: float, shrink=True):
    rec = Recorder(budget_s)
    base = facet.machine

    class Wrapped(base):  # type: ignore[misc, valid-type]
        def __init__(self):
            super().__init__()
            rec.current = self
            self._tracing = False
            if rec.failure is None and rec.traced < TRACE_CASES:
                rec.traced += 1
                self._tracing = True
                rec.tracer.__enter__()

        def teardown(self):
            try:
                super().teardown()
            finally:
                if self._tracing:
                    rec.tracer.__exit__()
                    self._tracing = False
                if not getattr(self, "_failed", False) and rec.failure is None:
                    rec.record(list(self.log), self.info, facet.describe)

    Wrapped.__name__ = base.__name__
    Wrapped.__qualname__ = base.__qualname__

    # Violations inside rules/invariants propagate out of run_state_machine_as_test.
    def factory():
        return Wrapped()

    try:
        run_state_machine_as_test(hypothesis.seed(hseed)(Wrapped), settings=_settings(n, shrink, facet.steps))
    except Violation as v:
        m = getattr(rec, "current", None)
        rec.note_failure(list(m.log) if m is not None else None, str(v), getattr(v, "bucket", "oracle"))
    except HarnessError:
        raise
    except hypothesis.errors.HypothesisException as e:
        raise HarnessError(f"hypothesis: {type(e).__name__}: {e}") from e
    except Exception as e:  # noqa: BLE001
        m = getattr(rec, "current", None)
        if exception_from_cut(e):
            rec.note_failure(list(m.log) if m is not None else None,
                             f"code under test raised {cut_bucket(e)}: {e}", cut_bucket(e))
        else:
            raise HarnessError(f"{type(e).__name__}: {e}\n" + traceback.format_exc()) from e
    return rec


def run_enum_facet(facet: Facet, tier: str):
    """Finite enumeration: facet.check(tier) yields (case, info) pairs or raises Violation with .case."""
    rec = Recorder(1e9, max_samples=3)
    try:
        with rec.tracer:
            for case, info in facet.check(tier):
                rec.record(case, info, facet.describe)
    except Violation as v:
        rec.note_failure(getattr(v, "case", None), str(v), getattr(v, "bucket", "oracle"))
    except Exception as e:  # noqa: BLE001
        if exception_from_cut(e):
            rec.note_failure(getattr(e, "case", None), f"code under test raised {cut_bucket(e)}: {e}", cut_bucket(e))
        else:
            raise HarnessError(f"{type(e).__name__}: {e}\n" + traceback.format_exc()) from e
    return rec


def dump_replay(path, prop, facet: Facet, case, message, seed):
    os.makedirs(os.path.dirname(path), exist_ok=True)
    doc = {
        "property": prop,
        "facet": facet.name,
        "kind": facet.kind,
        "seed": seed,
        "message": message[:4000],
        "case_repr": short_repr(case, 6000),
        "case_pickle_b64": base64.b64encode(pickle.dumps(case, protocol=4)).decode(),
    }
    with open(path, "w") as f:
        json.dump(doc, f, indent=1)
    return path


def load_replay(path):
    with open(path) as f:
        doc = json.load(f)
    doc["case"] = pickle.loads(base64.b64decode(doc["case_pickle_b64"]))
    return doc


def run_replay(facet: Facet, case):
    """Re-run one saved case without Hypothesis.  Returns None if it passes, else the message."""
    try:
        if facet.kind == "machine":
            facet.machine.replay(case)
        elif facet.kind == "enum":
            facet.replay(case)
        else:
            guarded_check(facet.check, case)
    except Violation as v:
        return str(v)
    except HarnessError:
        raise
    except Exception as e:  # noqa: BLE001
        if exception_from_cut(e):
            return f"code under test raised {cut_bucket(e)}: {e}"
        raise HarnessError(f"{type(e).__name__}: {e}\n" + traceback.format_exc()) from e
    return None
